package p14

import (
	"fmt"
	"strings"

	"github.com/conduitio/conduit/pkg/connector"
	"github.com/conduitio/conduit/pkg/pipeline"
	"github.com/conduitio/conduit/pkg/processor"
	"verifharness/lab"
)

// Operation kinds (closed vocabulary, used in keys).
const (
	kPlCreate     = "pipelines.Create"
	kPlUpdate     = "pipelines.Update"
	kPlUpdateDLQ  = "pipelines.UpdateDLQ"
	kPlDelete     = "pipelines.Delete"
	kPlStart      = "pipelines.Start"
	kPlStop       = "pipelines.Stop"
	kConnCreate   = "connectors.Create"
	kConnUpdate   = "connectors.Update"
	kConnDelete   = "connectors.Delete"
	kProcCreatePl = "processors.CreateOnPipeline"
	kProcCreateCn = "processors.CreateOnConnector"
	kProcUpdate   = "processors.Update"
	kProcDelete   = "processors.Delete"
	// simulated runtime events, not API calls (never get a fault, never keyed)
	kSimStart = "world.Start"
	kSimStop  = "world.Stop"
	kSimRan   = "world.Ran"
	// a server restart: fresh services loaded from the store
	kSimRestart = "world.Restart"
)

var apiKinds = []string{kPlCreate, kPlUpdate, kPlUpdateDLQ, kPlDelete, kPlStart, kPlStop, kConnCreate, kConnUpdate, kConnDelete,
	kProcCreatePl, kProcCreateCn, kProcUpdate, kProcDelete}

func isAPI(kind string) bool { return !strings.HasPrefix(kind, "world.") }

// Argument classes (closed vocabulary, used in keys). The class of an executed
// call is computed from the pre-state and the arguments (analyse), in the order
// in which the code under test checks things.
const (
	cValid           = "valid"
	cPassthrough     = "passthrough"
	cUnknownID       = "unknown-id"
	cUnknownParent   = "unknown-parent"
	cBadParentType   = "invalid-parent-type"
	cConfig          = "config-provisioned"
	cRunning         = "running"
	cHasConnectors   = "has-connectors"
	cHasProcessors   = "has-processors"
	cEmptyName       = "empty-name"
	cDupName         = "dup-name"
	cLongName        = "long-name"
	cLongDesc        = "long-description"
	cInvalidType     = "invalid-type"
	cUnknownPlugin   = "unknown-plugin"
	cStalePlugin     = "current-plugin-unknown"
	cEmptyPlugin     = "empty-plugin"
	cInvalidSettings = "invalid-settings"
	cNegWindow       = "negative-dlq-window"
	cNegThreshold    = "negative-dlq-threshold"
	cBadWindow       = "dlq-threshold-not-below-window"
	cNegWorkers      = "negative-workers"
)

var allClasses = []string{cValid, cPassthrough,
	cUnknownID, cUnknownParent, cBadParentType, cConfig, cRunning, cHasConnectors, cHasProcessors, cEmptyName, cDupName, cLongName,
	cLongDesc, cInvalidType, cUnknownPlugin, cStalePlugin, cEmptyPlugin, cInvalidSettings, cNegWindow, cNegThreshold, cBadWindow, cNegWorkers}

// Variants (closed vocabulary): properties of the targeted entity / arguments
// that select a different code path or make a different defect visible. The
// variant is appended to the operation kind in keys ("connectors.Update+plugin-changed").
const (
	vOnPipeline  = "+on-pipeline"
	vOnConnector = "+on-connector"
)

// Traits of a call that make additional defects visible but do not select a
// different code path; they are evidence classes only (not part of keys: the
// shapes they enable, e.g. memory-connector-state, already say so).
const (
	trPluginChanged = "trait:plugin-changed"
	trHasState      = "trait:connector-has-state"
)

// opNames lists every operation name that can appear in a key.
var opNames = func() []string {
	out := append([]string{}, apiKinds...)
	return append(out, kProcDelete+vOnPipeline, kProcDelete+vOnConnector)
}()

// Fault positions (closed vocabulary, used in keys).
const posNoFault = "no-fault"

func faultPosOf(f *FaultSpec) string {
	if f == nil {
		return posNoFault
	}
	switch lab.FaultKind(f.Kind) {
	case lab.FaultNewTxn:
		return "newtxn-failed"
	case lab.FaultCommit:
		return "commit-failed"
	default:
		return fmt.Sprintf("store.Set#%d-failed", f.Index)
	}
}

const maxSetIndex = 6

var allPositions = func() []string {
	out := []string{posNoFault, "newtxn-failed", "commit-failed"}
	for i := 0; i <= maxSetIndex; i++ {
		out = append(out, fmt.Sprintf("store.Set#%d-failed", i))
	}
	return out
}()

type FaultSpec struct {
	Kind  string `json:"kind"` // lab.FaultKind
	Index int    `json:"index"`
}

// Op is one step of a history. All fields are plain data so that a history can
// be replayed from JSON; targets are selected by index into the creation-ordered
// list of existing entities (ids are assigned by the code under test).
type Op struct {
	Kind string `json:"kind"`
	// Target >= 0: index (modulo) into the creation-ordered entities matching Pref;
	// -1: an id nothing has; -2: the empty id; -3: the id of an entity of another kind.
	Target int    `json:"target"`
	Pref   string `json:"pref,omitempty"` // "", "running", "config", "api-idle"

	Name       string `json:"name,omitempty"`
	NameRepeat int    `json:"name_repeat,omitempty"` // >0: name is that many 'n'
	NameFrom   int    `json:"name_from"`             // >=0: copy the name of the pipeline with that index
	DescRepeat int    `json:"desc_repeat,omitempty"` // description is that many 'd'

	Plugin     string            `json:"plugin,omitempty"`
	Settings   map[string]string `json:"settings,omitempty"`
	NilSetting bool              `json:"nil_settings,omitempty"`
	ConnType   int               `json:"conn_type,omitempty"`
	ParentType int               `json:"parent_type,omitempty"`
	Workers    int               `json:"workers,omitempty"`
	Cond       string            `json:"cond,omitempty"`

	WindowSize int `json:"window_size,omitempty"`
	Threshold  int `json:"threshold,omitempty"`

	StopStatus int  `json:"stop_status,omitempty"`
	Force      bool `json:"force,omitempty"`

	Fault *FaultSpec `json:"fault,omitempty"`
}

func (o Op) name() string {
	if o.NameRepeat > 0 {
		return strings.Repeat("n", o.NameRepeat)
	}
	return o.Name
}

func (o Op) settings() map[string]string {
	if o.NilSetting {
		return nil
	}
	return cloneSS(o.Settings)
}

// ---------------------------------------------------------------- target resolution

func plOfConn(v *View, cid string) *VPipeline {
	if c := v.Connectors[cid]; c != nil {
		return v.Pipelines[c.PipelineID]
	}
	return nil
}

func plOfProc(v *View, pid string) *VPipeline {
	p := v.Processors[pid]
	if p == nil {
		return nil
	}
	if p.ParentType == int(processor.ParentTypePipeline) {
		return v.Pipelines[p.ParentID]
	}
	return plOfConn(v, p.ParentID)
}

func matchPref(pl *VPipeline, ownProv int, pref string) bool {
	if pl == nil {
		return pref == ""
	}
	running := pl.Status == int(pipeline.StatusRunning)
	config := pl.ProvisionedBy != int(pipeline.ProvisionTypeAPI) || ownProv != 0
	switch pref {
	case "running":
		return running
	case "config":
		return config
	case "api-idle":
		return !running && !config
	}
	return true
}

func pickFrom(order []string, target int, ok func(id string) bool) (string, bool) {
	var cand []string
	for _, id := range order {
		if ok(id) {
			cand = append(cand, id)
		}
	}
	if len(cand) == 0 {
		cand = order
	}
	if len(cand) == 0 {
		return "", false
	}
	return cand[target%len(cand)], true
}

const noSuchID = "p14-no-such-id"

// resolveTarget turns (Target, Pref) into an id of the wanted entity kind
// ("pl", "conn", "proc").
func (w *world) resolveTarget(v *View, want string, target int, pref string) string {
	switch {
	case target == -2:
		return ""
	case target == -1:
		return noSuchID
	case target == -3:
		var other []string
		if want == "pl" {
			other = append(append(other, w.connOrder...), w.procOrder...)
		} else {
			other = w.plOrder
		}
		if len(other) == 0 {
			return noSuchID
		}
		return other[0]
	}
	var id string
	var ok bool
	switch want {
	case "pl":
		id, ok = pickFrom(w.plOrder, target, func(id string) bool { return matchPref(v.Pipelines[id], 0, pref) })
	case "conn":
		id, ok = pickFrom(w.connOrder, target, func(id string) bool {
			return matchPref(plOfConn(v, id), v.Connectors[id].ProvisionedBy, pref)
		})
	default:
		id, ok = pickFrom(w.procOrder, target, func(id string) bool {
			return matchPref(plOfProc(v, id), v.Processors[id].ProvisionedBy, pref)
		})
	}
	if !ok {
		return noSuchID
	}
	return id
}

// resolved is an operation with its concrete arguments.
type resolved struct {
	op   Op
	id   string // target id: pipeline / connector / processor / parent
	name string
	desc string
}

func (w *world) resolve(v *View, op Op) resolved {
	r := resolved{op: op, name: op.name(), desc: strings.Repeat("d", op.DescRepeat)}
	if op.NameFrom >= 0 && len(w.plOrder) > 0 {
		if p := v.Pipelines[w.plOrder[op.NameFrom%len(w.plOrder)]]; p != nil {
			r.name = p.Name
		}
	}
	switch op.Kind {
	case kPlCreate, kSimRestart:
	case kPlUpdate, kPlUpdateDLQ, kPlDelete, kPlStart, kPlStop, kConnCreate, kProcCreatePl, kSimStart, kSimStop:
		r.id = w.resolveTarget(v, "pl", op.Target, op.Pref)
	case kConnUpdate, kConnDelete, kProcCreateCn, kSimRan:
		r.id = w.resolveTarget(v, "conn", op.Target, op.Pref)
	case kProcUpdate, kProcDelete:
		r.id = w.resolveTarget(v, "proc", op.Target, op.Pref)
	}
	return r
}

// ---------------------------------------------------------------- analysis: class, expectation, guard, reference model

const (
	expAny  = iota // the statement does not decide whether this call is accepted
	expOK          // well-formed call on a mutable resource: must be accepted (absent a fault)
	expFail        // structurally impossible or guarded: must be refused
)

type analysis struct {
	class        string
	variant      string // "" or one of the v* constants
	trait        string // "" or one of the tr* constants
	expect       int
	guardRunning bool // the targeted resource belongs to a running pipeline
	guardConfig  bool // the targeted resource (or its pipeline) is provisioned by a config file
	// apply turns a copy of the pre-state into the expected post-state of a
	// successful call; newID is the id of the returned instance (creates).
	apply func(v *View, newID string)
	// touched: entities whose UpdatedAt may advance; creates: "pl"/"conn"/"proc" or ""
	touched []string
	creates string
}

func nameTaken(v *View, name, exceptID string) bool {
	for id, p := range v.Pipelines {
		if id != exceptID && p.Name == name {
			return true
		}
	}
	return false
}

func removeStr(s []string, x string) []string {
	out := make([]string, 0, len(s))
	removed := false
	for _, y := range s {
		if y == x && !removed {
			removed = true
			continue
		}
		out = append(out, y)
	}
	return out
}

func isRunning(p *VPipeline) bool { return p != nil && p.Status == int(pipeline.StatusRunning) }
func isConfig(p *VPipeline) bool {
	return p != nil && p.ProvisionedBy != int(pipeline.ProvisionTypeAPI)
}

// analyse mirrors the order of the checks in pkg/orchestrator and the services.
func analyse(v *View, r resolved) analysis {
	op := r.op
	a := analysis{class: cValid, expect: expOK, apply: func(*View, string) {}}
	first := true
	// set records the first applicable reason as the class of the call
	set := func(class string, expect int) {
		if first {
			a.class, a.expect = class, expect
			first = false
		}
	}
	switch op.Kind {
	case kPlCreate:
		if r.name == "" {
			set(cEmptyName, expAny)
		}
		if nameTaken(v, r.name, "") {
			set(cDupName, expAny)
		}
		if len(r.name) > pipeline.NameLengthLimit {
			set(cLongName, expAny)
		}
		if len(r.desc) > pipeline.DescriptionLengthLimit {
			set(cLongDesc, expAny)
		}
		a.creates = "pl"
		a.apply = func(v *View, id string) {
			v.Pipelines[id] = &VPipeline{ID: id, Name: r.name, Description: r.desc, ProvisionedBy: int(pipeline.ProvisionTypeAPI),
				DLQ:    VDLQ{Plugin: pipeline.DefaultDLQ.Plugin, Settings: cloneSS(pipeline.DefaultDLQ.Settings), WindowSize: pipeline.DefaultDLQ.WindowSize, WindowNackThreshold: pipeline.DefaultDLQ.WindowNackThreshold},
				Status: int(pipeline.StatusUserStopped), ConnectorIDs: []string{}, ProcessorIDs: []string{}}
		}

	case kPlStart, kPlStop:
		// passthrough to the lifecycle service: mutates nothing in the three services
		a.class, a.expect = cPassthrough, expOK

	case kPlUpdate, kPlUpdateDLQ, kPlDelete:
		p := v.Pipelines[r.id]
		if p == nil {
			set(cUnknownID, expFail)
			break
		}
		a.guardConfig, a.guardRunning = isConfig(p), isRunning(p)
		if a.guardConfig {
			set(cConfig, expFail)
		}
		if a.guardRunning {
			set(cRunning, expFail)
		}
		a.touched = []string{"pl:" + r.id}
		switch op.Kind {
		case kPlUpdate:
			if r.name == "" {
				set(cEmptyName, expAny)
			}
			if nameTaken(v, r.name, r.id) {
				set(cDupName, expAny)
			}
			if len(r.name) > pipeline.NameLengthLimit {
				set(cLongName, expAny)
			}
			if len(r.desc) > pipeline.DescriptionLengthLimit {
				set(cLongDesc, expAny)
			}
			a.apply = func(v *View, _ string) {
				v.Pipelines[r.id].Name, v.Pipelines[r.id].Description = r.name, r.desc
			}
		case kPlUpdateDLQ:
			settings := op.settings()
			if op.Plugin == "" {
				set(cEmptyPlugin, expAny)
			}
			if !knownConnPlugin(op.Plugin) {
				set(cUnknownPlugin, expAny)
			}
			if _, bad := settings[invalidSettingKey]; bad {
				set(cInvalidSettings, expAny)
			}
			if op.WindowSize < 0 {
				set(cNegWindow, expAny)
			}
			if op.Threshold < 0 {
				set(cNegThreshold, expAny)
			}
			if op.WindowSize > 0 && op.WindowSize <= op.Threshold {
				set(cBadWindow, expAny)
			}
			a.apply = func(v *View, _ string) {
				v.Pipelines[r.id].DLQ = VDLQ{Plugin: op.Plugin, Settings: settings, WindowSize: op.WindowSize, WindowNackThreshold: op.Threshold}
			}
		case kPlDelete:
			if len(p.ConnectorIDs) != 0 {
				set(cHasConnectors, expFail)
			}
			if len(p.ProcessorIDs) != 0 {
				set(cHasProcessors, expFail)
			}
			a.touched = nil
			a.apply = func(v *View, _ string) { delete(v.Pipelines, r.id) }
		}

	case kConnCreate:
		p := v.Pipelines[r.id]
		if p == nil {
			set(cUnknownID, expFail)
			break
		}
		a.guardConfig, a.guardRunning = isConfig(p), isRunning(p)
		if a.guardConfig {
			set(cConfig, expFail)
		}
		if a.guardRunning {
			set(cRunning, expFail)
		}
		settings := op.settings()
		if op.ConnType != int(connector.TypeSource) && op.ConnType != int(connector.TypeDestination) {
			set(cInvalidType, expAny)
		}
		if op.Plugin == "" {
			set(cEmptyPlugin, expAny)
		}
		if !knownConnPlugin(op.Plugin) {
			set(cUnknownPlugin, expAny)
		}
		if _, bad := settings[invalidSettingKey]; bad {
			set(cInvalidSettings, expAny)
		}
		if r.name == "" {
			set(cEmptyName, expAny)
		}
		if len(r.name) > connector.NameLengthLimit {
			set(cLongName, expAny)
		}
		a.creates = "conn"
		a.touched = []string{"pl:" + r.id}
		a.apply = func(v *View, id string) {
			v.Connectors[id] = &VConnector{ID: id, Type: op.ConnType, Name: r.name, Settings: settings, PipelineID: r.id, Plugin: op.Plugin,
				ProcessorIDs: []string{}, State: "", ProvisionedBy: int(connector.ProvisionTypeAPI), LastActive: "<nil>"}
			v.Pipelines[r.id].ConnectorIDs = append(v.Pipelines[r.id].ConnectorIDs, id)
		}

	case kConnUpdate, kConnDelete:
		c := v.Connectors[r.id]
		if c == nil {
			set(cUnknownID, expFail)
			break
		}
		p := v.Pipelines[c.PipelineID]
		a.guardConfig = c.ProvisionedBy != int(connector.ProvisionTypeAPI) || isConfig(p)
		a.guardRunning = isRunning(p)
		if op.Kind == kConnUpdate {
			if a.guardConfig {
				set(cConfig, expFail)
			}
			if a.guardRunning {
				set(cRunning, expFail)
			}
			settings := op.settings()
			// the orchestrator validates the new config against the CURRENT plugin
			if !knownConnPlugin(c.Plugin) {
				set(cStalePlugin, expAny)
			}
			if _, bad := settings[invalidSettingKey]; bad {
				set(cInvalidSettings, expAny)
			}
			if op.Plugin == "" {
				set(cEmptyPlugin, expAny)
			}
			if !knownConnPlugin(op.Plugin) {
				set(cUnknownPlugin, expAny)
			}
			if r.name == "" {
				set(cEmptyName, expAny)
			}
			if len(r.name) > connector.NameLengthLimit {
				set(cLongName, expAny)
			}
			if op.Plugin != c.Plugin {
				a.trait = trPluginChanged
			}
			a.touched = []string{"conn:" + r.id}
			a.apply = func(v *View, _ string) {
				x := v.Connectors[r.id]
				x.Plugin, x.Name, x.Settings = op.Plugin, r.name, settings
			}
		} else {
			if a.guardConfig {
				set(cConfig, expFail)
			}
			if len(c.ProcessorIDs) != 0 {
				set(cHasProcessors, expFail)
			}
			if a.guardRunning {
				set(cRunning, expFail)
			}
			if c.State != "" || c.LastActive != "<nil>" {
				a.trait = trHasState
			}
			a.touched = []string{"pl:" + c.PipelineID}
			a.apply = func(v *View, _ string) {
				delete(v.Connectors, r.id)
				if p := v.Pipelines[c.PipelineID]; p != nil {
					p.ConnectorIDs = removeStr(p.ConnectorIDs, r.id)
				}
			}
		}

	case kProcCreatePl, kProcCreateCn:
		var p *VPipeline
		switch op.ParentType {
		case int(processor.ParentTypePipeline):
			p = v.Pipelines[r.id]
			if p == nil {
				set(cUnknownParent, expFail)
			}
		case int(processor.ParentTypeConnector):
			c := v.Connectors[r.id]
			if c == nil {
				set(cUnknownParent, expFail)
			} else {
				p = v.Pipelines[c.PipelineID]
				a.guardConfig = c.ProvisionedBy != int(connector.ProvisionTypeAPI)
			}
		default:
			set(cBadParentType, expFail)
		}
		if p == nil {
			break
		}
		a.guardConfig = a.guardConfig || isConfig(p)
		a.guardRunning = isRunning(p)
		if a.guardConfig {
			set(cConfig, expFail)
		}
		if a.guardRunning {
			set(cRunning, expFail)
		}
		if op.Workers < 0 {
			set(cNegWorkers, expAny)
		}
		if !knownProcPlugin(op.Plugin) {
			set(cUnknownPlugin, expAny)
		}
		settings := op.settings()
		a.creates = "proc"
		workers := op.Workers
		if workers == 0 {
			workers = 1 // documented default (processor.Service.Create)
		}
		if op.ParentType == int(processor.ParentTypePipeline) {
			a.touched = []string{"pl:" + r.id}
		} else {
			a.touched = []string{"conn:" + r.id}
		}
		a.apply = func(v *View, id string) {
			v.Processors[id] = &VProcessor{ID: id, Plugin: op.Plugin, Condition: op.Cond, ParentID: r.id, ParentType: op.ParentType,
				Settings: settings, Workers: workers, ProvisionedBy: int(processor.ProvisionTypeAPI)}
			if op.ParentType == int(processor.ParentTypePipeline) {
				v.Pipelines[r.id].ProcessorIDs = append(v.Pipelines[r.id].ProcessorIDs, id)
			} else {
				v.Connectors[r.id].ProcessorIDs = append(v.Connectors[r.id].ProcessorIDs, id)
			}
		}

	case kProcUpdate, kProcDelete:
		pr := v.Processors[r.id]
		if pr == nil {
			set(cUnknownID, expFail)
			break
		}
		p := plOfProc(v, r.id)
		a.guardConfig = pr.ProvisionedBy != int(processor.ProvisionTypeAPI) || isConfig(p)
		a.guardRunning = isRunning(p)
		if a.guardConfig {
			set(cConfig, expFail)
		}
		if a.guardRunning {
			set(cRunning, expFail)
		}
		parentKey := "pl:" + pr.ParentID
		if pr.ParentType == int(processor.ParentTypeConnector) {
			parentKey = "conn:" + pr.ParentID
		}
		if op.Kind == kProcUpdate {
			settings := op.settings()
			if op.Plugin == "" {
				set(cEmptyPlugin, expAny)
			}
			if !knownProcPlugin(op.Plugin) {
				set(cUnknownPlugin, expAny)
			}
			if op.Workers < 0 {
				set(cNegWorkers, expAny)
			}
			if op.Plugin != pr.Plugin {
				a.trait = trPluginChanged
			}
			a.touched = []string{"proc:" + r.id}
			a.apply = func(v *View, _ string) {
				x := v.Processors[r.id]
				x.Plugin, x.Settings, x.Workers = op.Plugin, settings, op.Workers
			}
		} else {
			if pr.ParentType == int(processor.ParentTypeConnector) {
				a.variant = vOnConnector
			} else {
				a.variant = vOnPipeline
			}
			a.touched = []string{parentKey}
			a.apply = func(v *View, _ string) {
				delete(v.Processors, r.id)
				if pr.ParentType == int(processor.ParentTypeConnector) {
					if c := v.Connectors[pr.ParentID]; c != nil {
						c.ProcessorIDs = removeStr(c.ProcessorIDs, r.id)
					}
				} else if p := v.Pipelines[pr.ParentID]; p != nil {
					p.ProcessorIDs = removeStr(p.ProcessorIDs, r.id)
				}
			}
		}
	}
	return a
}
