package p14

import (
	"context"
	"crypto/sha256"
	"encoding/binary"
	"errors"
	"fmt"
	"sync"
	"time"

	"github.com/conduitio/conduit-commons/opencdc"
	"github.com/conduitio/conduit-connector-protocol/pconnector"
	sdk "github.com/conduitio/conduit-processor-sdk"
	"github.com/conduitio/conduit/pkg/connector"
	"github.com/conduitio/conduit/pkg/foundation/log"
	"github.com/conduitio/conduit/pkg/orchestrator"
	"github.com/conduitio/conduit/pkg/pipeline"
	connectorPlugin "github.com/conduitio/conduit/pkg/plugin/connector"
	"github.com/conduitio/conduit/pkg/plugin/processor/egress"
	"github.com/conduitio/conduit/pkg/processor"
	"github.com/google/uuid"
	"verifharness/lab"
)

// Plugin names the fake plugin services know. Everything else is "unknown".
const (
	connPluginA = "builtin:p14-conn-a"
	connPluginB = "builtin:p14-conn-b"
	procPluginA = "builtin:p14-proc-a"
	procPluginB = "builtin:p14-proc-b"
	// a connector/DLQ config carrying this settings key is refused by the fake
	// plugin validation (the "plugin rejects the config" class)
	invalidSettingKey = "p14.invalid"
)

func knownConnPlugin(n string) bool { return n == connPluginA || n == connPluginB }
func knownProcPlugin(n string) bool { return n == procPluginA || n == procPluginB }

// ---------------------------------------------------------------- fake connector plugin service

type fakeConnPlugins struct {
	mu sync.Mutex
	// hooks records every on-deleted lifecycle hook a plugin received ("<connector id>").
	hooks []string
}

func (f *fakeConnPlugins) List(context.Context) (map[string]pconnector.Specification, error) {
	return map[string]pconnector.Specification{}, nil
}

func (f *fakeConnPlugins) validate(name string, settings map[string]string) error {
	if !knownConnPlugin(name) {
		return fmt.Errorf("p14: connector plugin %q not found", name)
	}
	if _, bad := settings[invalidSettingKey]; bad {
		return fmt.Errorf("p14: plugin %q rejects setting %q", name, invalidSettingKey)
	}
	return nil
}

func (f *fakeConnPlugins) ValidateSourceConfig(_ context.Context, name string, settings map[string]string) error {
	return f.validate(name, settings)
}

func (f *fakeConnPlugins) ValidateDestinationConfig(_ context.Context, name string, settings map[string]string) error {
	return f.validate(name, settings)
}

func (f *fakeConnPlugins) NewDispenser(_ log.CtxLogger, name string, connectorID string) (connectorPlugin.Dispenser, error) {
	if !knownConnPlugin(name) {
		return nil, fmt.Errorf("p14: connector plugin %q not found", name)
	}
	return &fakeDispenser{f: f, id: connectorID}, nil
}

func (f *fakeConnPlugins) hookCount() int {
	f.mu.Lock()
	defer f.mu.Unlock()
	return len(f.hooks)
}

type fakeDispenser struct {
	f  *fakeConnPlugins
	id string
}

func (d *fakeDispenser) DispenseSpecifier() (connectorPlugin.SpecifierPlugin, error) {
	return nil, errors.New("p14: specifier not available")
}
func (d *fakeDispenser) DispenseSource() (connectorPlugin.SourcePlugin, error) {
	return &fakeSrc{d: d}, nil
}
func (d *fakeDispenser) DispenseDestination() (connectorPlugin.DestinationPlugin, error) {
	return &fakeDst{d: d}, nil
}

type fakeSrc struct {
	connectorPlugin.SourcePlugin // nil: only the exercised methods have bodies
	d                            *fakeDispenser
}

func (s *fakeSrc) LifecycleOnDeleted(context.Context, pconnector.SourceLifecycleOnDeletedRequest) (pconnector.SourceLifecycleOnDeletedResponse, error) {
	s.d.f.mu.Lock()
	s.d.f.hooks = append(s.d.f.hooks, s.d.id)
	s.d.f.mu.Unlock()
	return pconnector.SourceLifecycleOnDeletedResponse{}, nil
}
func (s *fakeSrc) Teardown(context.Context, pconnector.SourceTeardownRequest) (pconnector.SourceTeardownResponse, error) {
	return pconnector.SourceTeardownResponse{}, nil
}

type fakeDst struct {
	connectorPlugin.DestinationPlugin
	d *fakeDispenser
}

func (s *fakeDst) LifecycleOnDeleted(context.Context, pconnector.DestinationLifecycleOnDeletedRequest) (pconnector.DestinationLifecycleOnDeletedResponse, error) {
	s.d.f.mu.Lock()
	s.d.f.hooks = append(s.d.f.hooks, s.d.id)
	s.d.f.mu.Unlock()
	return pconnector.DestinationLifecycleOnDeletedResponse{}, nil
}
func (s *fakeDst) Teardown(context.Context, pconnector.DestinationTeardownRequest) (pconnector.DestinationTeardownResponse, error) {
	return pconnector.DestinationTeardownResponse{}, nil
}

// ---------------------------------------------------------------- fake processor plugin services

type fakeProcRegistry struct{}

type nopProc struct{ sdk.UnimplementedProcessor }

func (fakeProcRegistry) NewProcessor(_ context.Context, pluginName string, _ string, _ egress.Policy) (sdk.Processor, error) {
	if !knownProcPlugin(pluginName) {
		return nil, fmt.Errorf("p14: processor plugin %q not found", pluginName)
	}
	return &nopProc{}, nil
}

type fakeProcPlugins struct{}

func (fakeProcPlugins) List(context.Context) (map[string]sdk.Specification, error) {
	return map[string]sdk.Specification{}, nil
}
func (fakeProcPlugins) RegisterStandalonePlugin(context.Context, string) (string, error) {
	return "", errors.New("p14: not supported")
}

// ---------------------------------------------------------------- fake lifecycle service

type fakeLifecycle struct {
	mu    sync.Mutex
	calls []string
}

func (l *fakeLifecycle) Start(_ context.Context, id string) error {
	l.mu.Lock()
	l.calls = append(l.calls, "start:"+id)
	l.mu.Unlock()
	return nil
}
func (l *fakeLifecycle) Stop(_ context.Context, id string, force bool) error {
	l.mu.Lock()
	l.calls = append(l.calls, fmt.Sprintf("stop:%s:%v", id, force))
	l.mu.Unlock()
	return nil
}

// ---------------------------------------------------------------- deterministic uuid source

// detRand is a deterministic byte stream (sha256 in counter mode) so that the
// ids the orchestrator assigns (uuid.NewString) are a function of the case.
type detRand struct {
	seed uint64
	ctr  uint64
	buf  []byte
}

func (r *detRand) Read(p []byte) (int, error) {
	for i := range p {
		if len(r.buf) == 0 {
			var in [16]byte
			binary.LittleEndian.PutUint64(in[:8], r.seed)
			binary.LittleEndian.PutUint64(in[8:], r.ctr)
			r.ctr++
			h := sha256.Sum256(in[:])
			r.buf = h[:]
		}
		p[i] = r.buf[0]
		r.buf = r.buf[1:]
	}
	return len(p), nil
}

// ---------------------------------------------------------------- the world

type services struct {
	pls   *pipeline.Service
	conns *connector.Service
	procs *processor.Service
}

func newServices(db *lab.FaultDB) services {
	logger := log.Nop()
	return services{
		pls:   pipeline.NewService(logger, db),
		conns: connector.NewService(logger, db, connector.NewPersister(logger, db, time.Millisecond, 1)),
		procs: processor.NewService(logger, db, fakeProcRegistry{}),
	}
}

// initAll loads the services the way the runtime does at start-up
// (processors, connectors, then pipelines).
func (s services) initAll(ctx context.Context) error {
	if err := s.procs.Init(ctx); err != nil {
		return err
	}
	if err := s.conns.Init(ctx); err != nil {
		return err
	}
	return s.pls.Init(ctx)
}

type world struct {
	ctx     context.Context
	db      *lab.FaultDB
	svc     services
	plugins *fakeConnPlugins
	life    *fakeLifecycle
	orc     *orchestrator.Orchestrator
	// runnables of the processors of simulated running pipelines, by processor id
	runnables map[string]*processor.RunnableProcessor
	// creation-ordered ids (what a target index selects from)
	plOrder, connOrder, procOrder []string
	posSeq                        int
}

func newWorld(uuidSeed uint64) *world {
	uuid.SetRand(&detRand{seed: uuidSeed})
	db := lab.NewFaultDB(nil)
	db.TraceOps = true
	w := &world{
		ctx:       context.Background(),
		db:        db,
		svc:       newServices(db),
		plugins:   &fakeConnPlugins{},
		life:      &fakeLifecycle{},
		runnables: map[string]*processor.RunnableProcessor{},
	}
	w.orc = orchestrator.NewOrchestrator(db, log.Nop(), w.svc.pls, w.svc.conns, w.svc.procs, w.plugins, fakeProcPlugins{}, w.life)
	return w
}

// restart replaces the live services by fresh ones loaded from the (same) store
// and builds a new orchestrator on them: a server restart.
func (w *world) restart() error {
	w.svc = newServices(w.db)
	if err := w.svc.initAll(w.ctx); err != nil {
		return err
	}
	w.runnables = map[string]*processor.RunnableProcessor{}
	w.orc = orchestrator.NewOrchestrator(w.db, log.Nop(), w.svc.pls, w.svc.conns, w.svc.procs, w.plugins, fakeProcPlugins{}, w.life)
	return nil
}

// reload builds fresh services on a copy of the current store content: what a
// restarted server would hold in memory.
func (w *world) reload() (services, error) {
	db2 := lab.NewFaultDBFrom(nil, w.db.Current())
	s := newServices(db2)
	return s, s.initAll(w.ctx)
}

// syncOrder updates the creation-ordered id lists from a view.
func (w *world) syncOrder(v *View) {
	w.plOrder = syncIDs(w.plOrder, keysOf(v.Pipelines))
	w.connOrder = syncIDs(w.connOrder, keysOf(v.Connectors))
	w.procOrder = syncIDs(w.procOrder, keysOf(v.Processors))
}

func syncIDs(order []string, present []string) []string {
	in := map[string]bool{}
	for _, id := range present {
		in[id] = true
	}
	out := order[:0:0]
	seen := map[string]bool{}
	for _, id := range order {
		if in[id] {
			out = append(out, id)
			seen[id] = true
		}
	}
	for _, id := range present { // present is sorted
		if !seen[id] {
			out = append(out, id)
		}
	}
	return out
}

// ---------------------------------------------------------------- set-up of config-provisioned entities

type CfgConn struct {
	Dest  bool `json:"dest"`
	Procs int  `json:"procs"`
}

type CfgPipeline struct {
	Conns []CfgConn `json:"conns"`
	Procs int       `json:"procs"`
}

type Setup struct {
	UUIDSeed uint64        `json:"uuid_seed"`
	Config   []CfgPipeline `json:"config_pipelines"`
	// Warmup: the first Warmup API calls of the history run without faults, so
	// that faults also hit populated states.
	Warmup int `json:"warmup"`
	// Prefab: that many fully populated API pipelines (2 connectors, 2 pipeline
	// processors, 2 processors on the first connector) are created through the
	// API, without faults, as the first steps of the history.
	Prefab int `json:"prefab"`
	// ProbeKnown: in this case combinations that are listed as known findings are
	// NOT skipped; a known violation is tolerated, the server is "restarted" from
	// the store and the history continues. Keeps the check sensitive to new
	// shapes behind a known (operation, fault position).
	ProbeKnown bool `json:"probe_known"`
}

// applySetup creates the file-provisioned entities directly through the
// services (as the provisioning service does), without faults.
func (w *world) applySetup(s Setup) error {
	ctx := w.ctx
	for i, cp := range s.Config {
		plID := fmt.Sprintf("cfg-pl-%d", i)
		if _, err := w.svc.pls.Create(ctx, plID, pipeline.Config{Name: fmt.Sprintf("cfg-name-%d", i), Description: "from file"}, pipeline.ProvisionTypeConfig); err != nil {
			return err
		}
		for j, cc := range cp.Conns {
			cid := fmt.Sprintf("%s:conn-%d", plID, j)
			typ := connector.TypeSource
			if cc.Dest {
				typ = connector.TypeDestination
			}
			if _, err := w.svc.conns.Create(ctx, cid, typ, connPluginA, plID, connector.Config{Name: cid, Settings: map[string]string{"k": "file"}}, connector.ProvisionTypeConfig); err != nil {
				return err
			}
			if _, err := w.svc.pls.AddConnector(ctx, plID, cid); err != nil {
				return err
			}
			for k := 0; k < cc.Procs; k++ {
				pid := fmt.Sprintf("%s:proc-%d", cid, k)
				if _, err := w.svc.procs.Create(ctx, pid, procPluginA, processor.Parent{ID: cid, Type: processor.ParentTypeConnector}, processor.Config{Settings: map[string]string{"k": "file"}, Workers: 1}, processor.ProvisionTypeConfig, ""); err != nil {
					return err
				}
				if _, err := w.svc.conns.AddProcessor(ctx, cid, pid); err != nil {
					return err
				}
			}
		}
		for k := 0; k < cp.Procs; k++ {
			pid := fmt.Sprintf("%s:proc-%d", plID, k)
			if _, err := w.svc.procs.Create(ctx, pid, procPluginA, processor.Parent{ID: plID, Type: processor.ParentTypePipeline}, processor.Config{Settings: map[string]string{"k": "file"}, Workers: 1}, processor.ProvisionTypeConfig, ""); err != nil {
				return err
			}
			if _, err := w.svc.pls.AddProcessor(ctx, plID, pid); err != nil {
				return err
			}
		}
	}
	return nil
}

// ---------------------------------------------------------------- simulated runtime events (not API calls)

// processorsOf lists the processors of a pipeline and of its connectors.
func processorsOf(v *View, plID string) []string {
	p := v.Pipelines[plID]
	if p == nil {
		return nil
	}
	out := append([]string(nil), p.ProcessorIDs...)
	for _, cid := range p.ConnectorIDs {
		if c := v.Connectors[cid]; c != nil {
			out = append(out, c.ProcessorIDs...)
		}
	}
	return out
}

// simStart makes a pipeline look running to every guard the API reads: the
// pipeline status (orchestrator guards) and the processors' running flag
// (processor.Service.Update/Delete guard; set by MakeRunnableProcessor exactly
// as the lifecycle service does when it builds the nodes).
func (w *world) simStart(v *View, plID string) (started bool, err error) {
	var made []string
	for _, pid := range processorsOf(v, plID) {
		inst, err := w.svc.procs.Get(w.ctx, pid)
		if err != nil {
			return false, err
		}
		r, err := w.svc.procs.MakeRunnableProcessor(w.ctx, inst)
		if err != nil {
			// The pipeline cannot start (e.g. Processors.Update stored a plugin
			// name nothing provides): undo, the pipeline stays stopped.
			for _, id := range made {
				_ = w.runnables[id].Teardown(w.ctx)
				delete(w.runnables, id)
			}
			return false, nil
		}
		w.runnables[pid] = r
		made = append(made, pid)
	}
	return true, w.svc.pls.UpdateStatus(w.ctx, plID, pipeline.StatusRunning, "")
}

// simStop ends the simulated run: processors are torn down (clears the running
// flag) and the status becomes st (user stopped or degraded with an error).
func (w *world) simStop(v *View, plID string, st pipeline.Status) error {
	for _, pid := range processorsOf(v, plID) {
		if r := w.runnables[pid]; r != nil {
			if err := r.Teardown(w.ctx); err != nil {
				return err
			}
			delete(w.runnables, pid)
		}
	}
	msg := ""
	if st == pipeline.StatusDegraded {
		msg = "p14: simulated failure"
	}
	return w.svc.pls.UpdateStatus(w.ctx, plID, st, msg)
}

// simRan leaves the traces of an earlier run on a connector: a stored position
// and the last active config (what Source/Destination.Open + the persister write).
func (w *world) simRan(connID string) error {
	inst, err := w.svc.conns.Get(w.ctx, connID)
	if err != nil {
		return err
	}
	w.posSeq++
	inst.LastActiveConfig = connector.Config{Name: inst.Config.Name, Settings: map[string]string{"ran": fmt.Sprint(w.posSeq)}}
	var state any
	if inst.Type == connector.TypeSource {
		state = connector.SourceState{Position: opencdc.Position(fmt.Sprintf("pos-%d", w.posSeq))}
	} else {
		state = connector.DestinationState{Positions: map[string]opencdc.Position{"src": opencdc.Position(fmt.Sprintf("pos-%d", w.posSeq))}}
	}
	_, err = w.svc.conns.SetState(w.ctx, connID, state)
	return err
}
