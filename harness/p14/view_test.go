package p14

import (
	"context"
	"encoding/json"
	"errors"
	"fmt"
	"reflect"
	"sort"
	"strings"
	"time"

	"github.com/conduitio/conduit/pkg/connector"
	"github.com/conduitio/conduit/pkg/pipeline"
	"github.com/conduitio/conduit/pkg/processor"
)

// View is a deep copy of everything the three services expose (List of every
// service, all exported fields of every instance, the pipeline status) plus one
// piece of hidden state made observable by a side-effect-free probe: the
// pipeline name index.
type View struct {
	Pipelines  map[string]*VPipeline  `json:"pipelines"`
	Connectors map[string]*VConnector `json:"connectors"`
	Processors map[string]*VProcessor `json:"processors"`
	// NamesTaken: for every probed name, does the pipeline service consider it taken.
	NamesTaken map[string]bool `json:"names_taken,omitempty"`
}

type VDLQ struct {
	Plugin              string            `json:"plugin"`
	Settings            map[string]string `json:"settings"`
	WindowSize          int               `json:"window_size"`
	WindowNackThreshold int               `json:"window_nack_threshold"`
}

type VPipeline struct {
	ID            string    `json:"id"`
	Name          string    `json:"name"`
	Description   string    `json:"description"`
	Error         string    `json:"error"`
	ProvisionedBy int       `json:"provisioned_by"`
	DLQ           VDLQ      `json:"dlq"`
	ConnectorIDs  []string  `json:"connector_ids"`
	ProcessorIDs  []string  `json:"processor_ids"`
	Status        int       `json:"status"`
	CreatedAt     time.Time `json:"created_at"`
	UpdatedAt     time.Time `json:"updated_at"`
}

type VConnector struct {
	ID            string            `json:"id"`
	Type          int               `json:"type"`
	Name          string            `json:"name"`
	Settings      map[string]string `json:"settings"`
	PipelineID    string            `json:"pipeline_id"`
	Plugin        string            `json:"plugin"`
	ProcessorIDs  []string          `json:"processor_ids"`
	State         string            `json:"state"` // "<go type>:<json>" or "" for nil
	ProvisionedBy int               `json:"provisioned_by"`
	// LastActive: "<nil>" when LastActiveConfig.Settings is nil (never started), else name + settings
	LastActive string    `json:"last_active"`
	CreatedAt  time.Time `json:"created_at"`
	UpdatedAt  time.Time `json:"updated_at"`
}

type VProcessor struct {
	ID            string            `json:"id"`
	Plugin        string            `json:"plugin"`
	Condition     string            `json:"condition"`
	ParentID      string            `json:"parent_id"`
	ParentType    int               `json:"parent_type"`
	Settings      map[string]string `json:"settings"`
	Workers       int               `json:"workers"`
	ProvisionedBy int               `json:"provisioned_by"`
	CreatedAt     time.Time         `json:"created_at"`
	UpdatedAt     time.Time         `json:"updated_at"`
}

func cloneSS(m map[string]string) map[string]string {
	out := make(map[string]string, len(m))
	for k, v := range m {
		out[k] = v
	}
	return out
}

func cloneStrs(s []string) []string { return append([]string{}, s...) }

func keysOf[T any](m map[string]T) []string {
	out := make([]string, 0, len(m))
	for k := range m {
		out = append(out, k)
	}
	sort.Strings(out)
	return out
}

func stateString(s any) string {
	if s == nil {
		return ""
	}
	b, _ := json.Marshal(s)
	return fmt.Sprintf("%T:%s", s, b)
}

func lastActiveString(c connector.Config) string {
	if c.Settings == nil {
		return "<nil>"
	}
	b, _ := json.Marshal(c.Settings) // map keys are sorted by encoding/json
	return c.Name + "|" + string(b)
}

// snapshot deep-copies the observable state of a set of services.
func snapshot(ctx context.Context, s services, probeNames []string) *View {
	v := &View{Pipelines: map[string]*VPipeline{}, Connectors: map[string]*VConnector{}, Processors: map[string]*VProcessor{}, NamesTaken: map[string]bool{}}
	for id, p := range s.pls.List(ctx) {
		v.Pipelines[id] = &VPipeline{
			ID: p.ID, Name: p.Config.Name, Description: p.Config.Description, Error: p.Error,
			ProvisionedBy: int(p.ProvisionedBy),
			DLQ:           VDLQ{Plugin: p.DLQ.Plugin, Settings: cloneSS(p.DLQ.Settings), WindowSize: p.DLQ.WindowSize, WindowNackThreshold: p.DLQ.WindowNackThreshold},
			ConnectorIDs:  cloneStrs(p.ConnectorIDs), ProcessorIDs: cloneStrs(p.ProcessorIDs),
			Status: int(p.GetStatus()), CreatedAt: p.CreatedAt, UpdatedAt: p.UpdatedAt,
		}
	}
	for id, c := range s.conns.List(ctx) {
		v.Connectors[id] = &VConnector{
			ID: c.ID, Type: int(c.Type), Name: c.Config.Name, Settings: cloneSS(c.Config.Settings),
			PipelineID: c.PipelineID, Plugin: c.Plugin, ProcessorIDs: cloneStrs(c.ProcessorIDs),
			State: stateString(c.State), ProvisionedBy: int(c.ProvisionedBy),
			LastActive: lastActiveString(c.LastActiveConfig), CreatedAt: c.CreatedAt, UpdatedAt: c.UpdatedAt,
		}
	}
	for id, p := range s.procs.List(ctx) {
		v.Processors[id] = &VProcessor{
			ID: p.ID, Plugin: p.Plugin, Condition: p.Condition, ParentID: p.Parent.ID, ParentType: int(p.Parent.Type),
			Settings: cloneSS(p.Config.Settings), Workers: p.Config.Workers, ProvisionedBy: int(p.ProvisionedBy),
			CreatedAt: p.CreatedAt, UpdatedAt: p.UpdatedAt,
		}
	}
	// Hidden-state probe: pipeline.Service.Create validates id and name before
	// anything else and reports all problems joined; with the (always invalid)
	// empty id it can never create anything, and the joined error tells whether
	// the service's name index holds the name.
	seen := map[string]bool{}
	probe := func(n string) {
		if n == "" || seen[n] {
			return
		}
		seen[n] = true
		_, err := s.pls.Create(ctx, "", pipeline.Config{Name: n}, pipeline.ProvisionTypeAPI)
		v.NamesTaken[n] = errors.Is(err, pipeline.ErrNameAlreadyExists)
	}
	for _, n := range probeNames {
		probe(n)
	}
	for _, p := range v.Pipelines {
		probe(p.Name)
	}
	return v
}

func (v *View) clone() *View {
	b, _ := json.Marshal(v)
	var out View
	_ = json.Unmarshal(b, &out)
	// JSON drops the monotonic clock reading and nothing else we compare with ==.
	return &out
}

// exportedFieldCheck guards the explicit field lists above: if an instance type
// grows an exported field this check does not copy, the result is reported as
// inconclusive evidence instead of silently ignoring the field.
func exportedFieldCheck() []string {
	want := map[string][]string{
		"pipeline":  {"ID", "Config", "Error", "CreatedAt", "UpdatedAt", "ProvisionedBy", "DLQ", "ConnectorIDs", "ProcessorIDs"},
		"connector": {"ID", "Type", "Config", "PipelineID", "Plugin", "ProcessorIDs", "State", "ProvisionedBy", "CreatedAt", "UpdatedAt", "LastActiveConfig", "RWMutex"},
		"processor": {"ID", "CreatedAt", "UpdatedAt", "ProvisionedBy", "Plugin", "Condition", "Parent", "Config"},
	}
	types := map[string]reflect.Type{
		"pipeline":  reflect.TypeOf(pipeline.Instance{}),
		"connector": reflect.TypeOf(connector.Instance{}),
		"processor": reflect.TypeOf(processor.Instance{}),
	}
	var notes []string
	for name, typ := range types {
		known := map[string]bool{}
		for _, f := range want[name] {
			known[f] = true
		}
		for i := 0; i < typ.NumField(); i++ {
			f := typ.Field(i)
			if f.IsExported() && !known[f.Name] {
				notes = append(notes, fmt.Sprintf("%s.Instance has exported field %s that the C14 view does not compare", name, f.Name))
			}
		}
	}
	sort.Strings(notes)
	return notes
}

// ---------------------------------------------------------------- diff

// Difference tags (closed vocabulary; used as the last key segment).
const (
	tagPipelineIDs      = "pipeline-set"
	tagConnectorIDs     = "connector-set"
	tagProcessorIDs     = "processor-set"
	tagPipelineConfig   = "pipeline-config"
	tagPipelineDLQ      = "pipeline-dlq"
	tagPipelineRefs     = "pipeline-refs"
	tagPipelineStatus   = "pipeline-status"
	tagPipelineIdentity = "pipeline-identity"
	tagConnectorConfig  = "connector-config"
	tagConnectorIdent   = "connector-identity"
	tagConnectorRefs    = "connector-refs"
	tagConnectorState   = "connector-state"
	tagProcessorConfig  = "processor-config"
	tagProcessorIdent   = "processor-identity"
	tagNameIndex        = "pipeline-name-index"
	tagTimestampOnly    = "timestamp-only"
)

var diffTags = []string{tagPipelineIDs, tagConnectorIDs, tagProcessorIDs, tagPipelineConfig, tagPipelineDLQ, tagPipelineRefs,
	tagPipelineStatus, tagPipelineIdentity, tagConnectorConfig, tagConnectorIdent, tagConnectorRefs, tagConnectorState,
	tagProcessorConfig, tagProcessorIdent, tagNameIndex, tagTimestampOnly}

type diffResult struct {
	tags    map[string]bool // non-timestamp differences
	ts      bool            // some CreatedAt/UpdatedAt differs
	details []string
}

func (d *diffResult) add(tag, format string, args ...any) {
	if d.tags == nil {
		d.tags = map[string]bool{}
	}
	d.tags[tag] = true
	if len(d.details) < 12 {
		d.details = append(d.details, tag+": "+fmt.Sprintf(format, args...))
	}
}

func (d *diffResult) addTS(format string, args ...any) {
	d.ts = true
	if len(d.details) < 12 {
		d.details = append(d.details, "timestamp: "+fmt.Sprintf(format, args...))
	}
}

func (d *diffResult) empty() bool { return len(d.tags) == 0 && !d.ts }

// shapes returns the key segments this difference maps to: every data tag, or
// "timestamp-only" when nothing but timestamps differs.
func (d *diffResult) shapes() []string {
	if len(d.tags) > 0 {
		return keysOf(d.tags)
	}
	if d.ts {
		return []string{tagTimestampOnly}
	}
	return nil
}

func (d *diffResult) String() string { return strings.Join(d.details, "; ") }

func eqSS(a, b map[string]string) bool {
	if len(a) != len(b) {
		return false
	}
	for k, v := range a {
		if w, ok := b[k]; !ok || v != w {
			return false
		}
	}
	return true
}

func eqStrs(a, b []string) bool {
	if len(a) != len(b) {
		return false
	}
	for i := range a {
		if a[i] != b[i] {
			return false
		}
	}
	return true
}

type diffOpts struct {
	// reload: b was loaded from the store by fresh services; a running pipeline is
	// documented to come back as SystemStopped (pipeline.Service.Init).
	reload bool
	// ignoreTS lists entity ids ("pl:", "conn:", "proc:" prefixed) whose UpdatedAt
	// may have advanced from a to b (entities the operation legitimately touched).
	touched map[string]bool
	// fresh lists entities created by the operation: their timestamps are "some time".
	fresh map[string]bool
}

func tsDiff(d *diffResult, what string, aC, bC, aU, bU time.Time, touched bool) {
	if !aC.Equal(bC) {
		d.addTS("%s CreatedAt %s != %s", what, aC.Format(time.RFC3339Nano), bC.Format(time.RFC3339Nano))
	}
	if touched {
		if bU.Before(aU) {
			d.addTS("%s UpdatedAt went back %s -> %s", what, aU.Format(time.RFC3339Nano), bU.Format(time.RFC3339Nano))
		}
	} else if !aU.Equal(bU) {
		d.addTS("%s UpdatedAt %s != %s", what, aU.Format(time.RFC3339Nano), bU.Format(time.RFC3339Nano))
	}
}

// diffViews compares two views field by field (nil and empty collections are the
// same thing: the API cannot tell them apart).
func diffViews(a, b *View, o diffOpts) *diffResult {
	d := &diffResult{}
	if !eqStrs(keysOf(a.Pipelines), keysOf(b.Pipelines)) {
		d.add(tagPipelineIDs, "%v != %v", keysOf(a.Pipelines), keysOf(b.Pipelines))
	}
	if !eqStrs(keysOf(a.Connectors), keysOf(b.Connectors)) {
		d.add(tagConnectorIDs, "%v != %v", keysOf(a.Connectors), keysOf(b.Connectors))
	}
	if !eqStrs(keysOf(a.Processors), keysOf(b.Processors)) {
		d.add(tagProcessorIDs, "%v != %v", keysOf(a.Processors), keysOf(b.Processors))
	}
	for _, id := range keysOf(a.Pipelines) {
		x, y := a.Pipelines[id], b.Pipelines[id]
		if y == nil {
			continue
		}
		if x.ID != y.ID || x.ProvisionedBy != y.ProvisionedBy {
			d.add(tagPipelineIdentity, "%s: id/provisionedBy %s/%d != %s/%d", id, x.ID, x.ProvisionedBy, y.ID, y.ProvisionedBy)
		}
		if x.Name != y.Name || x.Description != y.Description {
			d.add(tagPipelineConfig, "%s: name/description %q/%q != %q/%q", id, x.Name, short(x.Description), y.Name, short(y.Description))
		}
		if x.DLQ.Plugin != y.DLQ.Plugin || !eqSS(x.DLQ.Settings, y.DLQ.Settings) || x.DLQ.WindowSize != y.DLQ.WindowSize || x.DLQ.WindowNackThreshold != y.DLQ.WindowNackThreshold {
			d.add(tagPipelineDLQ, "%s: %+v != %+v", id, x.DLQ, y.DLQ)
		}
		if !eqStrs(x.ConnectorIDs, y.ConnectorIDs) || !eqStrs(x.ProcessorIDs, y.ProcessorIDs) {
			d.add(tagPipelineRefs, "%s: connectors %v processors %v != connectors %v processors %v", id, x.ConnectorIDs, x.ProcessorIDs, y.ConnectorIDs, y.ProcessorIDs)
		}
		sx, sy := x.Status, y.Status
		if o.reload && sx == int(pipeline.StatusRunning) {
			sx = int(pipeline.StatusSystemStopped)
		}
		if sx != sy || x.Error != y.Error {
			d.add(tagPipelineStatus, "%s: status/error %d/%q != %d/%q", id, x.Status, x.Error, y.Status, y.Error)
		}
		if !o.fresh["pl:"+id] {
			tsDiff(d, "pipeline "+id, x.CreatedAt, y.CreatedAt, x.UpdatedAt, y.UpdatedAt, o.touched["pl:"+id])
		}
	}
	for _, id := range keysOf(a.Connectors) {
		x, y := a.Connectors[id], b.Connectors[id]
		if y == nil {
			continue
		}
		if x.ID != y.ID || x.Type != y.Type || x.PipelineID != y.PipelineID || x.ProvisionedBy != y.ProvisionedBy {
			d.add(tagConnectorIdent, "%s: id/type/pipeline/provisionedBy %s/%d/%s/%d != %s/%d/%s/%d", id, x.ID, x.Type, x.PipelineID, x.ProvisionedBy, y.ID, y.Type, y.PipelineID, y.ProvisionedBy)
		}
		if x.Plugin != y.Plugin || x.Name != y.Name || !eqSS(x.Settings, y.Settings) {
			d.add(tagConnectorConfig, "%s: plugin/name/settings %s/%q/%v != %s/%q/%v", id, x.Plugin, short(x.Name), x.Settings, y.Plugin, short(y.Name), y.Settings)
		}
		if !eqStrs(x.ProcessorIDs, y.ProcessorIDs) {
			d.add(tagConnectorRefs, "%s: processors %v != %v", id, x.ProcessorIDs, y.ProcessorIDs)
		}
		if x.State != y.State || x.LastActive != y.LastActive {
			d.add(tagConnectorState, "%s: state %q lastActive %q != state %q lastActive %q", id, x.State, x.LastActive, y.State, y.LastActive)
		}
		if !o.fresh["conn:"+id] {
			tsDiff(d, "connector "+id, x.CreatedAt, y.CreatedAt, x.UpdatedAt, y.UpdatedAt, o.touched["conn:"+id])
		}
	}
	for _, id := range keysOf(a.Processors) {
		x, y := a.Processors[id], b.Processors[id]
		if y == nil {
			continue
		}
		if x.ID != y.ID || x.ParentID != y.ParentID || x.ParentType != y.ParentType || x.Condition != y.Condition || x.ProvisionedBy != y.ProvisionedBy {
			d.add(tagProcessorIdent, "%s: id/parent/cond/provisionedBy %s/%s(%d)/%q/%d != %s/%s(%d)/%q/%d", id, x.ID, x.ParentID, x.ParentType, x.Condition, x.ProvisionedBy, y.ID, y.ParentID, y.ParentType, y.Condition, y.ProvisionedBy)
		}
		if x.Plugin != y.Plugin || !eqSS(x.Settings, y.Settings) || x.Workers != y.Workers {
			d.add(tagProcessorConfig, "%s: plugin/settings/workers %s/%v/%d != %s/%v/%d", id, x.Plugin, x.Settings, x.Workers, y.Plugin, y.Settings, y.Workers)
		}
		if !o.fresh["proc:"+id] {
			tsDiff(d, "processor "+id, x.CreatedAt, y.CreatedAt, x.UpdatedAt, y.UpdatedAt, o.touched["proc:"+id])
		}
	}
	for _, n := range keysOf(a.NamesTaken) {
		if bt, ok := b.NamesTaken[n]; ok && bt != a.NamesTaken[n] {
			d.add(tagNameIndex, "name %q taken: %v != %v", short(n), a.NamesTaken[n], bt)
		}
	}
	return d
}

func short(s string) string {
	if len(s) > 24 {
		return fmt.Sprintf("%s…(%d)", s[:12], len(s))
	}
	return s
}

// ---------------------------------------------------------------- referential integrity (clause C)

const (
	refPipelineListsMissingConn = "pipeline-lists-missing-connector"
	refPipelineListsForeignConn = "pipeline-lists-foreign-connector"
	refPipelineListsMissingProc = "pipeline-lists-missing-processor"
	refPipelineListsForeignProc = "pipeline-lists-foreign-processor"
	refConnPipelineMissing      = "connector-pipeline-missing"
	refConnNotListed            = "connector-not-listed-by-pipeline"
	refConnListsMissingProc     = "connector-lists-missing-processor"
	refConnListsForeignProc     = "connector-lists-foreign-processor"
	refProcParentMissing        = "processor-parent-missing"
	refProcNotListed            = "processor-not-listed-by-parent"
	refDuplicate                = "duplicate-reference"
)

var refShapes = []string{refPipelineListsMissingConn, refPipelineListsForeignConn, refPipelineListsMissingProc, refPipelineListsForeignProc,
	refConnPipelineMissing, refConnNotListed, refConnListsMissingProc, refConnListsForeignProc, refProcParentMissing, refProcNotListed, refDuplicate}

type refProblem struct{ shape, detail string }

func contains(s []string, x string) bool {
	for _, y := range s {
		if y == x {
			return true
		}
	}
	return false
}

func hasDup(s []string) bool {
	seen := map[string]bool{}
	for _, x := range s {
		if seen[x] {
			return true
		}
		seen[x] = true
	}
	return false
}

// checkRefs verifies that references agree in both directions and only point to
// existing entities.
func checkRefs(v *View) []refProblem {
	var out []refProblem
	add := func(shape, format string, args ...any) {
		out = append(out, refProblem{shape, fmt.Sprintf(format, args...)})
	}
	for _, id := range keysOf(v.Pipelines) {
		p := v.Pipelines[id]
		if hasDup(p.ConnectorIDs) || hasDup(p.ProcessorIDs) {
			add(refDuplicate, "pipeline %s lists %v / %v", id, p.ConnectorIDs, p.ProcessorIDs)
		}
		for _, cid := range p.ConnectorIDs {
			c := v.Connectors[cid]
			if c == nil {
				add(refPipelineListsMissingConn, "pipeline %s lists connector %s which does not exist", id, cid)
			} else if c.PipelineID != id {
				add(refPipelineListsForeignConn, "pipeline %s lists connector %s whose PipelineID is %s", id, cid, c.PipelineID)
			}
		}
		for _, pid := range p.ProcessorIDs {
			pr := v.Processors[pid]
			if pr == nil {
				add(refPipelineListsMissingProc, "pipeline %s lists processor %s which does not exist", id, pid)
			} else if pr.ParentID != id || pr.ParentType != int(processor.ParentTypePipeline) {
				add(refPipelineListsForeignProc, "pipeline %s lists processor %s whose parent is %s(%d)", id, pid, pr.ParentID, pr.ParentType)
			}
		}
	}
	for _, id := range keysOf(v.Connectors) {
		c := v.Connectors[id]
		p := v.Pipelines[c.PipelineID]
		if p == nil {
			add(refConnPipelineMissing, "connector %s belongs to pipeline %s which does not exist", id, c.PipelineID)
		} else if !contains(p.ConnectorIDs, id) {
			add(refConnNotListed, "connector %s belongs to pipeline %s which lists %v", id, c.PipelineID, p.ConnectorIDs)
		}
		if hasDup(c.ProcessorIDs) {
			add(refDuplicate, "connector %s lists %v", id, c.ProcessorIDs)
		}
		for _, pid := range c.ProcessorIDs {
			pr := v.Processors[pid]
			if pr == nil {
				add(refConnListsMissingProc, "connector %s lists processor %s which does not exist", id, pid)
			} else if pr.ParentID != id || pr.ParentType != int(processor.ParentTypeConnector) {
				add(refConnListsForeignProc, "connector %s lists processor %s whose parent is %s(%d)", id, pid, pr.ParentID, pr.ParentType)
			}
		}
	}
	for _, id := range keysOf(v.Processors) {
		pr := v.Processors[id]
		switch pr.ParentType {
		case int(processor.ParentTypePipeline):
			p := v.Pipelines[pr.ParentID]
			if p == nil {
				add(refProcParentMissing, "processor %s has parent pipeline %s which does not exist", id, pr.ParentID)
			} else if !contains(p.ProcessorIDs, id) {
				add(refProcNotListed, "processor %s has parent pipeline %s which lists %v", id, pr.ParentID, p.ProcessorIDs)
			}
		case int(processor.ParentTypeConnector):
			c := v.Connectors[pr.ParentID]
			if c == nil {
				add(refProcParentMissing, "processor %s has parent connector %s which does not exist", id, pr.ParentID)
			} else if !contains(c.ProcessorIDs, id) {
				add(refProcNotListed, "processor %s has parent connector %s which lists %v", id, pr.ParentID, c.ProcessorIDs)
			}
		default:
			add(refProcParentMissing, "processor %s has parent type %d", id, pr.ParentType)
		}
	}
	return out
}
