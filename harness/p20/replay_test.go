package p20

import (
	"encoding/json"
	"os"
	"testing"
)

type replayDoc struct {
	Property string      `json:"property"`
	Key      string      `json:"key"`
	Detail   string      `json:"detail"`
	Replay   replayValue `json:"replay"`
}

// TestReplayC20 re-executes a saved case without rapid and fails iff the
// recorded violation key reproduces.
func TestReplayC20(t *testing.T) {
	f := os.Getenv("VERIF_REPLAY_FILE")
	if f == "" {
		t.Skip("VERIF_REPLAY_FILE not set")
	}
	raw, err := os.ReadFile(f)
	if err != nil {
		t.Fatal(err)
	}
	var doc replayDoc
	if err := json.Unmarshal(raw, &doc); err != nil {
		t.Fatal(err)
	}
	var vs viols
	switch doc.Replay.Test {
	case "tree":
		if doc.Replay.Tree == nil {
			t.Fatal("replay file has no tree_case")
		}
		vs, _, err = runTreeCase(doc.Replay.Tree)
	case "bytes":
		vs = checkStatusBytes(doc.Replay.Bytes, doc.Replay.Exp)
	case "prod":
		if doc.Replay.Prod == nil {
			t.Fatal("replay file has no prod_case")
		}
		vs, err = checkProdCase(doc.Replay.Prod)
	default:
		t.Fatalf("unknown replay kind %q", doc.Replay.Test)
	}
	if err != nil {
		t.Fatalf("cannot rebuild the case: %v", err)
	}
	reproduced := false
	for _, v := range vs {
		if v.Key == doc.Key {
			reproduced = true
			t.Errorf("REPRODUCED %s", v)
		} else {
			t.Logf("other violation in the same case: %s", v)
		}
	}
	if !reproduced {
		t.Logf("violation %s does not reproduce", doc.Key)
	}
}
