package p20

// Byte-level entry point: a google.rpc.Status arriving from the wire.
// conduiterr.FromStatus documents "It never panics on malformed input" and "the
// result is always a well-formed ConduitError"; the relay (a second round trip)
// must not change the classification any more.

import (
	"fmt"
	"reflect"
	"testing"

	"github.com/conduitio/conduit/pkg/conduit/exitcode"
	"github.com/conduitio/conduit/pkg/foundation/cerrors/conduiterr"
	spb "google.golang.org/genproto/googleapis/rpc/status"
	"google.golang.org/grpc/codes"
	grpcstatus "google.golang.org/grpc/status"
	"google.golang.org/protobuf/encoding/protowire"
	"google.golang.org/protobuf/proto"
	"pgregory.net/rapid"
	"verifharness/pbt"
)

// wireExpect is what the generator knows about un-mutated bytes.
type wireExpect struct {
	Known      bool // expectations below apply (no byte mutation)
	Code       uint32
	Message    string
	HasConduit bool   // a decodable ErrorInfo detail with domain "conduit" is present
	Reason     string // of the FIRST such detail
	ConfigPath string
	Suggestion string
	DocsURL    string
}

func checkStatusBytes(data []byte, exp *wireExpect) (vs viols) {
	var p spb.Status
	if err := proto.Unmarshal(data, &p); err != nil {
		return nil // not a Status: never reaches FromStatus (proto rejects invalid UTF-8 too)
	}
	defer func() {
		if r := recover(); r != nil {
			vs.add("C20/status-bytes/panic", "panic on wire status %x: %v", data, r)
		}
	}()
	st := grpcstatus.FromProto(&p)
	got := conduiterr.FromStatus(st)
	if got == nil {
		vs.add("C20/status-bytes/nil", "FromStatus returned nil")
		return vs
	}
	if got.Message != st.Message() || got.Error() != st.Message() {
		vs.add("C20/status-bytes/message", "message %q, wire %q", got.Message, st.Message())
	}
	// "For a registered reason the LOCAL registry is authoritative for the gRPC
	// category ... For an unknown reason we fall back to the wire status' code"
	if reg, ok := conduiterr.LookupCode(got.Code.Reason()); ok && got.Code.Reason() != conduiterr.CodeUnknown.Reason() {
		if got.Code != reg {
			vs.add("C20/status-bytes/registry-not-authoritative", "reason %q category %s, registry %s", got.Code.Reason(), got.Code.GRPCCode(), reg.GRPCCode())
		}
	} else if !ok && got.Code.GRPCCode() != st.Code() {
		vs.add("C20/status-bytes/category", "unregistered reason %q: category %s, wire %s", got.Code.Reason(), got.Code.GRPCCode(), st.Code())
	}
	if exp != nil && exp.Known {
		if got.Message != exp.Message {
			vs.add("C20/status-bytes/message", "message %q, generated %q", got.Message, exp.Message)
		}
		switch {
		case exp.HasConduit:
			if got.Code.Reason() != exp.Reason {
				vs.add("C20/status-bytes/reason", "reason %q, wire detail says %q", got.Code.Reason(), exp.Reason)
			}
			if got.ConfigPath != exp.ConfigPath || got.Suggestion != exp.Suggestion || got.DocsURL != exp.DocsURL {
				vs.add("C20/status-bytes/fields", "{%q %q %q}, wire {%q %q %q}", got.ConfigPath, got.Suggestion, got.DocsURL, exp.ConfigPath, exp.Suggestion, exp.DocsURL)
			}
		default:
			// "No Conduit ErrorInfo detail: synthesize from the gRPC category."
			if got.Code.Reason() != conduiterr.CodeUnknown.Reason() || got.Code.GRPCCode() != codes.Code(exp.Code) {
				vs.add("C20/status-bytes/synthesized", "code %q/%s, want internal.unknown/%s", got.Code.Reason(), got.Code.GRPCCode(), codes.Code(exp.Code))
			}
		}
	}
	// exit code is the table applied to the category
	if want, ok := adrTable[got.Code.GRPCCode()]; ok {
		if e := exitcode.ExitCode(got); e != want {
			vs.add("C20/status-bytes/exitcode", "ExitCode=%d, table(%s)=%d", e, got.Code.GRPCCode(), want)
		}
	}
	// relay: ToStatus -> bytes -> FromStatus keeps code and fields (a category of
	// OK cannot carry details at all: status.WithDetails refuses, documented
	// fallback "detail-less status"; excluded)
	if got.Code.GRPCCode() == codes.OK {
		return vs
	}
	raw, err := proto.Marshal(conduiterr.ToStatus(got).Proto())
	if err != nil {
		vs.add("C20/status-bytes/relay", "marshal of relay: %v", err)
		return vs
	}
	var p2 spb.Status
	if err := proto.Unmarshal(raw, &p2); err != nil {
		vs.add("C20/status-bytes/relay", "unmarshal of relay: %v", err)
		return vs
	}
	relay := conduiterr.FromStatus(grpcstatus.FromProto(&p2))
	if relay.Code != got.Code && !(got.Code.Reason() == conduiterr.CodeUnknown.Reason()) {
		vs.add("C20/status-bytes/relay", "code %q/%s -> %q/%s", got.Code.Reason(), got.Code.GRPCCode(), relay.Code.Reason(), relay.Code.GRPCCode())
	}
	if relay.Code.Reason() != sanitise(got.Code.Reason()) {
		vs.add("C20/status-bytes/relay", "reason %q -> %q", got.Code.Reason(), relay.Code.Reason())
	}
	if relay.Message != sanitise(got.Message) || relay.ConfigPath != sanitise(got.ConfigPath) ||
		relay.Suggestion != sanitise(got.Suggestion) || relay.DocsURL != sanitise(got.DocsURL) ||
		!reflect.DeepEqual(relay.Fix, sanitiseFix(got.Fix)) {
		vs.add("C20/status-bytes/relay", "fields changed on relay: %+v fix %+v -> %+v fix %+v", got, got.Fix, relay, relay.Fix)
	}
	return vs
}

// --- generator of wire bytes (protowire, so that any byte string can be put
// into any field)

func encErrorInfo(reason, domain []byte, md [][2][]byte) []byte {
	var b []byte
	b = protowire.AppendTag(b, 1, protowire.BytesType)
	b = protowire.AppendBytes(b, reason)
	b = protowire.AppendTag(b, 2, protowire.BytesType)
	b = protowire.AppendBytes(b, domain)
	for _, kv := range md {
		var e []byte
		e = protowire.AppendTag(e, 1, protowire.BytesType)
		e = protowire.AppendBytes(e, kv[0])
		e = protowire.AppendTag(e, 2, protowire.BytesType)
		e = protowire.AppendBytes(e, kv[1])
		b = protowire.AppendTag(b, 3, protowire.BytesType)
		b = protowire.AppendBytes(b, e)
	}
	return b
}

func encAny(typeURL string, value []byte) []byte {
	var b []byte
	b = protowire.AppendTag(b, 1, protowire.BytesType)
	b = protowire.AppendString(b, typeURL)
	b = protowire.AppendTag(b, 2, protowire.BytesType)
	b = protowire.AppendBytes(b, value)
	return b
}

func genStatusBytes(t *rapid.T) ([]byte, *wireExpect) {
	exp := &wireExpect{Known: true}
	// detailValid: proto validates UTF-8 of string fields when the message that
	// contains them is decoded. The top-level message is decoded by
	// proto.Unmarshal (invalid => the whole status is refused), a detail only by
	// Status.Details() (invalid => that detail is skipped).
	detailValid := true
	str := func(label string) []byte {
		b := genMsg(t, label)
		if !validUTF8(b) {
			detailValid = false
		}
		return b
	}
	code := rapid.SampledFrom([]int64{0, 1, 2, 3, 4, 5, 6, 7, 8, 9, 10, 11, 12, 13, 14, 15, 16, 17, 99, 1 << 31}).Draw(t, "wireCode")
	exp.Code = uint32(code)
	msg := str("wireMsg")
	exp.Message = string(msg)
	var b []byte
	b = protowire.AppendTag(b, 1, protowire.VarintType)
	b = protowire.AppendVarint(b, uint64(code))
	b = protowire.AppendTag(b, 2, protowire.BytesType)
	b = protowire.AppendBytes(b, msg)

	nDetails := rapid.IntRange(0, 3).Draw(t, "details")
	cs := allCodes()
	for i := 0; i < nDetails; i++ {
		var any []byte
		detailValid = true
		switch rapid.IntRange(0, 5).Draw(t, "detailKind") {
		case 0: // foreign detail type
			any = encAny("type.googleapis.com/google.rpc.RequestInfo", []byte{0x0a, 0x01, 'x'})
		case 1: // unknown type URL
			any = encAny("type.googleapis.com/does.not.Exist", str("junk"))
		case 2: // ErrorInfo of another domain
			any = encAny("type.googleapis.com/google.rpc.ErrorInfo", encErrorInfo([]byte("common.not_found"), []byte("googleapis.com"), nil))
		default: // conduit ErrorInfo
			var reason []byte
			switch rapid.IntRange(0, 3).Draw(t, "reasonKind") {
			case 0:
				reason = []byte("some.unregistered_reason")
			case 1:
				reason = str("reason")
			default:
				reason = []byte(cs[rapid.IntRange(0, len(cs)-1).Draw(t, "code")].Reason())
			}
			var md [][2][]byte
			cp, sg, du := "", "", ""
			if rapid.Bool().Draw(t, "cp?") {
				v := str("configPath")
				md, cp = append(md, [2][]byte{[]byte("configPath"), v}), string(v)
			}
			if rapid.Bool().Draw(t, "sg?") {
				v := str("suggestion")
				md, sg = append(md, [2][]byte{[]byte("suggestion"), v}), string(v)
			}
			if rapid.Bool().Draw(t, "du?") {
				v := str("docsUrl")
				md, du = append(md, [2][]byte{[]byte("docsUrl"), v}), string(v)
			}
			if rapid.Bool().Draw(t, "fix?") {
				fix := rapid.SampledFrom([]string{
					`{"configPath":"/a","op":"set","value":"v"}`, `{}`, `{"op":1}`, `not json`, ``, `{"value":"\ud800"}`,
					`{"configPath":"/a","unknown":[1,2,{"x":null}]}`, `[]`, `null`, `{"value":"<&> "}`,
				}).Draw(t, "fixJSON")
				md = append(md, [2][]byte{[]byte("fix"), []byte(fix)})
			}
			if rapid.IntRange(0, 4).Draw(t, "extraMD?") == 0 {
				md = append(md, [2][]byte{append([]byte("x-"), str("mdKey")...), str("mdVal")})
			}
			any = encAny("type.googleapis.com/google.rpc.ErrorInfo", encErrorInfo(reason, []byte("conduit"), md))
			if !exp.HasConduit && detailValid {
				exp.HasConduit, exp.Reason, exp.ConfigPath, exp.Suggestion, exp.DocsURL = true, string(reason), cp, sg, du
			}
		}
		b = protowire.AppendTag(b, 3, protowire.BytesType)
		b = protowire.AppendBytes(b, any)
	}

	// byte-level mutation
	if rapid.IntRange(0, 3).Draw(t, "mutate?") == 0 && len(b) > 0 {
		exp.Known = false
		n := rapid.IntRange(1, 3).Draw(t, "mutations")
		for i := 0; i < n && len(b) > 0; i++ {
			pos := rapid.IntRange(0, len(b)-1).Draw(t, "pos")
			switch rapid.IntRange(0, 2).Draw(t, "mutation") {
			case 0:
				b[pos] ^= byte(1 << uint(rapid.IntRange(0, 7).Draw(t, "bit")))
			case 1:
				b = b[:pos]
			default:
				b = append(b[:pos:pos], append([]byte{rapid.Byte().Draw(t, "ins")}, b[pos:]...)...)
			}
		}
	}
	return b, exp
}

// TestC20StatusBytes: structured + mutated wire statuses through FromStatus.
func TestC20StatusBytes(t *testing.T) {
	st := pbt.For("C20")
	defer st.Finish(t)
	rapid.Check(t, func(t *rapid.T) {
		data, exp := genStatusBytes(t)
		pbt.MarkCurrent("C20", map[string]any{"bytes": data})
		var p spb.Status
		decodable := proto.Unmarshal(data, &p) == nil
		cls := []string{"wire:undecodable"}
		if decodable {
			cls = []string{"wire:decodable"}
			if exp.Known && exp.HasConduit {
				cls = append(cls, "wire:conduit-detail")
			}
			if !exp.Known {
				cls = append(cls, "wire:mutated-but-decodable")
			}
		}
		st.Case(pbt.Hash(data), decodable && len(p.Details) >= 2, cls...)
		vs := checkStatusBytes(data, exp)
		reportAll(t, st, vs, len(data), replayValue{Test: "bytes", Bytes: data, Exp: exp})
	})
}

// FuzzC20StatusBytes: native fuzz target for the same entry point
// (go test -fuzz=FuzzC20StatusBytes -fuzztime=...). Under plain `go test` it
// runs its seed corpus only.
func FuzzC20StatusBytes(f *testing.F) {
	seed := func(ce *conduiterr.ConduitError) {
		if b, err := proto.Marshal(conduiterr.ToStatus(ce).Proto()); err == nil {
			f.Add(b)
		}
	}
	full := conduiterr.New(conduiterr.CodeConnectorPluginNotFound, "connector plugin not found")
	full.ConfigPath, full.Suggestion, full.DocsURL = "/connectors/1/plugin", "install it", "https://x"
	full.Fix = &conduiterr.Fix{ConfigPath: "/connectors/1/plugin", Op: "set", Value: "builtin:postgres"}
	seed(full)
	seed(conduiterr.New(conduiterr.CodeUnavailable, "bad \x82 utf8"))
	seed(conduiterr.WithUnknownReason(fmt.Errorf("legacy"), codes.NotFound))
	f.Add(encAny("type.googleapis.com/google.rpc.ErrorInfo", encErrorInfo([]byte("x"), []byte("conduit"), nil)))
	f.Add([]byte{})
	f.Fuzz(func(t *testing.T, data []byte) {
		if vs := checkStatusBytes(data, nil); len(vs) > 0 {
			t.Fatalf("C20 violated on wire bytes %x: %v", data, vs)
		}
	})
}
