package p20

// "Produced shapes": wrappings the code base itself produces. The real
// funnel.Worker.Nack is driven with generated cause trees; its result is
// checked against the classification its own comments and codes.go document.

import (
	"context"
	"fmt"
	"testing"

	"github.com/conduitio/conduit-commons/opencdc"
	"github.com/conduitio/conduit/pkg/conduit/exitcode"
	"github.com/conduitio/conduit/pkg/connector"
	"github.com/conduitio/conduit/pkg/foundation/cerrors"
	"github.com/conduitio/conduit/pkg/foundation/cerrors/conduiterr"
	"github.com/conduitio/conduit/pkg/foundation/log"
	"github.com/conduitio/conduit/pkg/foundation/metrics/noop"
	"github.com/conduitio/conduit/pkg/lifecycle-poc/funnel"
	"pgregory.net/rapid"
	"verifharness/pbt"
)

const (
	keyProdCodeLost  = "C20/produced-shape/funnel.Worker.Nack/code-lost"
	keyProdCauseLost = "C20/produced-shape/funnel.Worker.Nack/cause-lost"
	keyProdFatalLost = "C20/produced-shape/funnel.Worker.Nack/fatal-lost"
	keyProdExitCode  = "C20/produced-shape/funnel.Worker.Nack/exitcode"
)

// ProdCase is a replayable produced-shape case.
type ProdCase struct {
	// Scenario: how DLQ.Nack comes to return n>0 together with an error.
	//  "threshold": nack window (size 4, threshold 1) accepts 1 of 2 nacked
	//               records; the cause is the second record's nack error.
	//  "partial-write": window disabled, the DLQ destination acks record 0 and
	//               fails record 1; the cause is that ack's error.
	Scenario string `json:"scenario"`
	// EmptyPos: record 0 carries an empty position (the guarded route of
	// Worker.Nack, worker.go:1000); otherwise all positions are non-empty
	// (the ordinary "failed to nack %d records: %w" route).
	EmptyPos bool  `json:"empty_pos"`
	Cause    *Node `json:"cause"`
}

type fakeSource struct{ acked int }

func (s *fakeSource) ID() string                                     { return "src" }
func (s *fakeSource) Open(context.Context) error                     { return nil }
func (s *fakeSource) Read(context.Context) ([]opencdc.Record, error) { return nil, context.Canceled }
func (s *fakeSource) Ack(_ context.Context, p []opencdc.Position) error {
	s.acked += len(p)
	return nil
}
func (s *fakeSource) Teardown(context.Context) error { return nil }
func (s *fakeSource) Errors() <-chan error           { return nil }

type fakeDest struct {
	pending []opencdc.Record
	failAt  int // index of the record whose ack carries failErr (-1: none)
	failErr error
}

func (d *fakeDest) ID() string                     { return "dlq" }
func (d *fakeDest) Open(context.Context) error     { return nil }
func (d *fakeDest) Teardown(context.Context) error { return nil }
func (d *fakeDest) Errors() <-chan error           { return nil }
func (d *fakeDest) Write(_ context.Context, recs []opencdc.Record) error {
	d.pending = append(d.pending, recs...)
	return nil
}
func (d *fakeDest) Ack(context.Context) ([]connector.DestinationAck, error) {
	acks := make([]connector.DestinationAck, len(d.pending))
	for i, r := range d.pending {
		acks[i] = connector.DestinationAck{Position: r.Position}
		if i == d.failAt {
			acks[i].Error = d.failErr
		}
	}
	d.pending = nil
	return acks, nil
}

// runProdCase drives the real Worker.Nack and returns its error together with
// the cause's built value and model atoms.
func runProdCase(pc *ProdCase) (result error, cause error, causeAtoms []atom, err error) {
	cause, causeAtoms, err = build(pc.Cause, nil)
	if err != nil {
		return nil, nil, nil, err
	}
	src := &fakeSource{}
	dest := &fakeDest{failAt: -1}
	windowSize, threshold := 4, 1
	if pc.Scenario == "partial-write" {
		windowSize, threshold = 0, 0
		dest.failAt, dest.failErr = 1, cause
	} else if pc.Scenario != "threshold" {
		return nil, nil, nil, fmt.Errorf("unknown scenario %q", pc.Scenario)
	}
	dlq := funnel.NewDLQ("dlq", dest, log.Nop(), funnel.NoOpConnectorMetrics{}, windowSize, threshold)
	w, err := funnel.NewWorker(&funnel.TaskNode{Task: funnel.NewSourceTask("src", src, log.Nop(), funnel.NoOpConnectorMetrics{})}, dlq, log.Nop(), noop.Timer{})
	if err != nil {
		return nil, nil, nil, err
	}
	p0 := opencdc.Position("p0")
	if pc.EmptyPos {
		p0 = opencdc.Position{}
	}
	batch := funnel.NewBatch([]opencdc.Record{
		{Position: p0, Operation: opencdc.OperationCreate},
		{Position: opencdc.Position("p1"), Operation: opencdc.OperationCreate},
	})
	if pc.Scenario == "threshold" {
		batch.Nack(0, cerrors.New("record 0 rejected"), cause)
	} else {
		batch.Nack(0, cerrors.New("record 0 rejected"), cerrors.New("record 1 rejected"))
	}
	result = w.Nack(context.Background(), batch, "task-1")
	return result, cause, causeAtoms, nil
}

func checkProdCase(pc *ProdCase) (viols, error) {
	result, cause, causeAtoms, err := runProdCase(pc)
	if err != nil {
		return nil, err
	}
	if result == nil {
		return nil, fmt.Errorf("Worker.Nack returned nil in scenario %s (harness does not reach the n>0 && err!=nil route)", pc.Scenario)
	}
	// DLQ.Nack wraps the cause: cerrors.FatalError(cerrors.Errorf("...: %w", cause))
	dlqAtoms := causeAtoms
	if !hasFatal(dlqAtoms) {
		dlqAtoms = append([]atom{{kind: aFatal}}, dlqAtoms...)
	}
	if !pc.EmptyPos {
		// ordinary route: cerrors.Errorf("failed to nack %d records: %w", ..., err):
		// a single plain wrapper; the complete model applies.
		vs, _ := checkAgainstModel(result, dlqAtoms)
		return vs, nil
	}

	// Guarded route. Documented by the code itself: the position error is
	// conduiterr.New(CodeEmptySourcePosition, ...) (validateAckPositions), the
	// result is FATAL ("FATAL, not a plain error"), and "Keep DLQ.Nack's own
	// error in the chain ... this is about not throwing away the cause".
	var vs viols
	posCode, ok := conduiterr.LookupCode("pipeline.empty_source_position")
	if !ok {
		return nil, fmt.Errorf("pipeline.empty_source_position not registered")
	}
	// what the same format string does on its own (the demonstration):
	litPos := conduiterr.New(posCode, "refusing to ack an empty position")
	lit := cerrors.FatalError(cerrors.Errorf("%w (while handling: %w)", litPos, cerrors.FatalError(cause)))
	_, litHasCode := conduiterr.Get(lit)
	demo := fmt.Sprintf("bare cerrors.Errorf(\"%%w (while handling: %%w)\", posErr, err): Get finds code=%v, Is(cause)=%v, Unwrap=%v, text=%.80q",
		litHasCode, cerrors.Is(lit, cause), cerrors.Unwrap(cerrors.Unwrap(lit)) != nil, lit.Error())

	if !cerrors.IsFatalError(result) {
		vs.add(keyProdFatalLost, "Worker.Nack result is not fatal: %q", result)
	}
	model := append([]atom{{kind: aFatal}, {kind: aCoded, code: posCode}}, causeAtoms...)
	c := classify(model)
	ce, found := conduiterr.Get(result)
	codeOK := found && ce.Code == posCode
	if !codeOK {
		got := "<none>"
		if found {
			got = ce.Code.Reason()
		}
		vs.add(keyProdCodeLost, "Worker.Nack (empty position, %s): conduiterr.Get gives %s, documented code pipeline.empty_source_position; ExitCode=%d (ADR on the documented classification: %d); result=%.120q; %s",
			pc.Scenario, got, exitcode.ExitCode(result), c.ExitCode, result.Error(), demo)
	} else if got := exitcode.ExitCode(result); got != c.ExitCode {
		vs.add(keyProdExitCode, "ExitCode=%d, ADR on the documented classification gives %d", got, c.ExitCode)
	}
	lost := ""
	if !cerrors.Is(result, cause) {
		lost = "errors.Is(result, cause)=false"
	}
	for name := range c.Sentinel {
		if !cerrors.Is(result, sentinelByName[name]) {
			lost += " sentinel " + name + " unreachable"
			break
		}
	}
	if lost != "" {
		vs.add(keyProdCauseLost, "Worker.Nack (empty position, %s) does not keep DLQ.Nack's error in the chain: %s; %s", pc.Scenario, lost, demo)
	}
	return vs, nil
}

// TestC20ProducedShapes: generated cause trees through the real Worker.Nack.
func TestC20ProducedShapes(t *testing.T) {
	st := pbt.For("C20")
	defer st.Finish(t)
	rapid.Check(t, func(t *rapid.T) {
		pc := &ProdCase{
			Scenario: rapid.SampledFrom([]string{"threshold", "partial-write"}).Draw(t, "scenario"),
			EmptyPos: rapid.Bool().Draw(t, "emptyPos"),
		}
		o := &genOpts{coded: true, opaque: true, budget: 20}
		pc.Cause = genTree(t, rapid.IntRange(0, 4).Draw(t, "depth"), o)
		pbt.MarkCurrent("C20", pc)
		vs, err := checkProdCase(pc)
		if err != nil {
			t.Fatalf("harness error (not a finding): %v", err)
		}
		s := shapeOf(pc.Cause, false)
		cls := []string{"produced:" + pc.Scenario}
		if pc.EmptyPos {
			cls = append(cls, "produced:empty-position-route")
		} else {
			cls = append(cls, "produced:ordinary-route")
		}
		st.Case(pbt.Hash(pc), s.Depth >= 2 && (s.Coded > 0 || s.Joins > 0), cls...)
		reportAll(t, st, vs, s.Size, replayValue{Test: "prod", Prod: pc})
	})
}
