package p20

// The oracle: every clause compares the real functions' answers on the built
// error value with the model computed from the tree (see NOTES.md for where each
// clause comes from).

import (
	"fmt"
	"reflect"
	"strings"

	"github.com/conduitio/conduit/pkg/conduit/exitcode"
	"github.com/conduitio/conduit/pkg/foundation/cerrors"
	"github.com/conduitio/conduit/pkg/foundation/cerrors/conduiterr"
	apistatus "github.com/conduitio/conduit/pkg/http/api/status"
	conn_plugin "github.com/conduitio/conduit/pkg/plugin/connector"
	"google.golang.org/genproto/googleapis/rpc/errdetails"
	spb "google.golang.org/genproto/googleapis/rpc/status"
	"google.golang.org/grpc/codes"
	grpcstatus "google.golang.org/grpc/status"
	"google.golang.org/protobuf/encoding/protojson"
	"google.golang.org/protobuf/proto"
)

type violation struct {
	Key    string
	Detail string
}

func (v violation) String() string { return v.Key + ": " + v.Detail }

type viols []violation

func (vs *viols) add(key, format string, a ...any) {
	*vs = append(*vs, violation{Key: key, Detail: fmt.Sprintf(format, a...)})
}

// sanitise is the documented wire sanitisation (status.go: "Replacing invalid
// bytes with U+FFFD keeps the error intact").
func sanitise(s string) string { return strings.ToValidUTF8(s, "�") }

func sanitiseFix(f *conduiterr.Fix) *conduiterr.Fix {
	if f == nil {
		return nil
	}
	return &conduiterr.Fix{ConfigPath: sanitise(f.ConfigPath), Op: sanitise(f.Op), Value: sanitise(f.Value)}
}

var apiFns = []struct {
	name string
	fn   func(error) error
}{
	{"PipelineError", apistatus.PipelineError},
	{"ConnectorError", apistatus.ConnectorError},
	{"ProcessorError", apistatus.ProcessorError},
	{"PluginError", apistatus.PluginError},
}

func conduitInfo(st *grpcstatus.Status) *errdetails.ErrorInfo {
	for _, d := range st.Details() {
		if info, ok := d.(*errdetails.ErrorInfo); ok && info.GetDomain() == "conduit" {
			return info
		}
	}
	return nil
}

// facets is what callers (the recovery decision, the API, scripts) observe of
// an error value; used by the metamorphic relation (real vs real).
type facets struct {
	Fatal     bool
	HasCode   bool
	Reason    string
	Category  codes.Code
	ExitCode  int
	APICodes  [4]codes.Code
	APIReason [4]string
	Sentinels string // bit string over sentinelDefs + validation
}

func observe(err error) facets {
	f := facets{Fatal: cerrors.IsFatalError(err), ExitCode: exitcode.ExitCode(err)}
	if ce, ok := conduiterr.Get(err); ok {
		f.HasCode, f.Reason = true, ce.Code.Reason()
		f.Category = conduiterr.ToStatus(ce).Code()
	}
	for i, a := range apiFns {
		st, _ := grpcstatus.FromError(a.fn(err))
		f.APICodes[i] = st.Code()
		if info := conduitInfo(st); info != nil {
			f.APIReason[i] = info.GetReason()
		}
	}
	var b strings.Builder
	for _, s := range sentinelDefs {
		if cerrors.Is(err, s.err) {
			b.WriteByte('1')
		} else {
			b.WriteByte('0')
		}
	}
	if cerrors.Is(err, &conn_plugin.ValidationError{}) {
		b.WriteByte('1')
	} else {
		b.WriteByte('0')
	}
	f.Sentinels = b.String()
	return f
}

// checkAgainstModel: all model clauses for one built error.
func checkAgainstModel(err error, atoms []atom) (viols, classification) {
	var vs viols
	c := classify(atoms)

	// --- fatal-ness: "the result is fatal exactly when some error inside it was marked fatal"
	if got := cerrors.IsFatalError(err); got != c.Fatal {
		if c.Fatal {
			vs.add("C20/fatal/lost", "tree contains a reachable fatal mark but IsFatalError=false; err=%q", err)
		} else {
			vs.add("C20/fatal/spurious", "tree contains no reachable fatal mark but IsFatalError=true; err=%q", err)
		}
	}

	// --- sentinels: errors.Is finds exactly the reachable sentinels
	for _, s := range sentinelDefs {
		got := cerrors.Is(err, s.err)
		if got != c.Sentinel[s.name] {
			if c.Sentinel[s.name] {
				vs.add("C20/sentinel/lost", "errors.Is(err, %s)=false although it is reachable; err=%q", s.name, err)
			} else {
				vs.add("C20/sentinel/spurious", "errors.Is(err, %s)=true although it is not in the tree; err=%q", s.name, err)
			}
		}
	}
	if got := cerrors.Is(err, &conn_plugin.ValidationError{}); got != c.Valid {
		vs.add("C20/sentinel/validation-error", "Is(ValidationError)=%v, model %v", got, c.Valid)
	}

	// --- code: conduiterr.Get returns the first ConduitError in pre-order
	ce, ok := conduiterr.Get(err)
	switch {
	case c.Coded == nil && ok:
		vs.add("C20/code/spurious", "Get found code %q in an un-coded tree", ce.Code.Reason())
	case c.Coded != nil && !ok:
		vs.add("C20/code/lost", "Get found no ConduitError, model code %q (via %s)", c.Coded.code.Reason(), c.Coded.via)
	case c.Coded != nil:
		m := c.Coded
		if ce.Code != m.code {
			vs.add("C20/code/wrong", "Get code %q/%s, model %q/%s (via %s)", ce.Code.Reason(), ce.Code.GRPCCode(), m.code.Reason(), m.code.GRPCCode(), m.via)
		}
		if ce.Message != m.msg || ce.Error() != m.msg {
			vs.add("C20/code/message", "Message %q Error() %q, documented %q (via %s)", ce.Message, ce.Error(), m.msg, m.via)
		}
		if ce.ConfigPath != m.fl.ConfigPath || ce.Suggestion != m.fl.Suggestion || ce.DocsURL != m.fl.DocsURL || !reflect.DeepEqual(ce.Fix, m.fl.Fix) {
			vs.add("C20/code/fields", "fields {%q %q %q %+v}, documented {%q %q %q %+v} (via %s)",
				ce.ConfigPath, ce.Suggestion, ce.DocsURL, ce.Fix, m.fl.ConfigPath, m.fl.Suggestion, m.fl.DocsURL, m.fl.Fix, m.via)
		}
		if reg, found := conduiterr.LookupCode(m.code.Reason()); !found || reg != m.code {
			vs.add("C20/code/registry", "registry lookup of %q: found=%v %v", m.code.Reason(), found, reg)
		}
		vs = append(vs, checkWire(ce, m)...)
	}

	// --- exit code: fixed function (the ADR's table and order) of the classification
	if got := exitcode.ExitCode(err); got != c.ExitCode {
		vs.add("C20/exitcode/table", "ExitCode=%d, ADR on the model (tier %s) gives %d; err=%q", got, c.Tier, c.ExitCode, err)
	}

	// --- API boundary: category and reason on the wire
	for _, a := range apiFns {
		out := a.fn(err)
		st, isStatus := grpcstatus.FromError(out)
		if out == nil || !isStatus {
			vs.add("C20/api-status/not-a-status/"+a.name, "returned %v", out)
			continue
		}
		info := conduitInfo(st)
		if info == nil {
			vs.add("C20/api-status/codeless/"+a.name, "no conduit ErrorInfo detail on %v", st.Proto())
			continue
		}
		if c.Coded != nil {
			if st.Code() != c.Coded.code.GRPCCode() {
				vs.add("C20/api-status/category/"+a.name, "status code %s, code %q is registered as %s", st.Code(), c.Coded.code.Reason(), c.Coded.code.GRPCCode())
			}
			if info.GetReason() != c.Coded.code.Reason() {
				vs.add("C20/api-status/reason/"+a.name, "reason %q, model %q", info.GetReason(), c.Coded.code.Reason())
			}
			// what a script observes through a CLI client (a plain status error)
			// equals what the server-side process would exit with.
			if c.Tier == "coded" {
				if got := exitcode.ExitCode(out); got != c.ExitCode {
					vs.add("C20/exitcode/client-vs-server", "ExitCode(API status error as a CLI client receives it)=%d, ADR on the model gives %d for the server-side error", got, c.ExitCode)
				}
			}
			continue
		}
		if info.GetReason() != conduiterr.CodeUnknown.Reason() {
			vs.add("C20/api-status/reason/"+a.name, "un-coded error got reason %q", info.GetReason())
		}
		if want, determined := apiCategory(a.name, c); determined && st.Code() != want {
			vs.add("C20/api-status/category/"+a.name, "status code %s, sentinel table gives %s; err=%q", st.Code(), want, err)
		}
	}
	return vs, c
}

// checkWire: ToStatus has the registered category and reason; the status
// survives proto bytes (and protojson, the grpc-gateway path) and FromStatus
// gives back code, message (sanitised) and the documented detail fields.
func checkWire(ce *conduiterr.ConduitError, m *atom) viols {
	var vs viols
	st := conduiterr.ToStatus(ce)
	if st.Code() != m.code.GRPCCode() {
		vs.add("C20/grpc-status/category", "ToStatus code %s, registered category of %q is %s", st.Code(), m.code.Reason(), m.code.GRPCCode())
	}
	info := conduitInfo(st)
	if info == nil {
		vs.add("C20/grpc-status/detail-dropped", "ToStatus produced no ErrorInfo detail for %q msg %q", m.code.Reason(), m.msg)
		return vs
	}
	if info.GetReason() != m.code.Reason() {
		vs.add("C20/grpc-status/reason", "ErrorInfo reason %q, model %q", info.GetReason(), m.code.Reason())
	}

	raw, err := proto.Marshal(st.Proto())
	if err != nil {
		vs.add("C20/roundtrip/marshal", "proto.Marshal: %v", err)
		return vs
	}
	vs = append(vs, checkBack("proto", raw, func(b []byte, p *spb.Status) error { return proto.Unmarshal(b, p) }, m)...)

	js, err := protojson.Marshal(st.Proto())
	if err != nil {
		vs.add("C20/roundtrip/marshal", "protojson.Marshal: %v", err)
		return vs
	}
	vs = append(vs, checkBack("protojson", js, func(b []byte, p *spb.Status) error { return protojson.Unmarshal(b, p) }, m)...)
	return vs
}

func checkBack(path string, raw []byte, unmarshal func([]byte, *spb.Status) error, m *atom) viols {
	var vs viols
	var p spb.Status
	if err := unmarshal(raw, &p); err != nil {
		vs.add("C20/roundtrip/unmarshal", "%s: %v", path, err)
		return vs
	}
	got := conduiterr.FromStatus(grpcstatus.FromProto(&p))
	if got == nil {
		vs.add("C20/roundtrip/code", "%s: FromStatus returned nil", path)
		return vs
	}
	if got.Code != m.code {
		vs.add("C20/roundtrip/code", "%s: code %q/%s, sent %q/%s", path, got.Code.Reason(), got.Code.GRPCCode(), m.code.Reason(), m.code.GRPCCode())
	}
	if got.Message != sanitise(m.msg) || got.Error() != sanitise(m.msg) {
		vs.add("C20/roundtrip/message", "%s: message %q, want %q", path, got.Message, sanitise(m.msg))
	}
	if got.ConfigPath != sanitise(m.fl.ConfigPath) || got.Suggestion != sanitise(m.fl.Suggestion) || got.DocsURL != sanitise(m.fl.DocsURL) {
		vs.add("C20/roundtrip/fields", "%s: {%q %q %q}, want {%q %q %q}", path, got.ConfigPath, got.Suggestion, got.DocsURL,
			sanitise(m.fl.ConfigPath), sanitise(m.fl.Suggestion), sanitise(m.fl.DocsURL))
	}
	if !reflect.DeepEqual(got.Fix, sanitiseFix(m.fl.Fix)) {
		vs.add("C20/roundtrip/fix", "%s: fix %+v, want %+v", path, got.Fix, sanitiseFix(m.fl.Fix))
	}
	if e := exitcode.ExitCode(got); e != adrTable[m.code.GRPCCode()] {
		vs.add("C20/roundtrip/exitcode", "%s: ExitCode(FromStatus(...))=%d, table gives %d", path, e, adrTable[m.code.GRPCCode()])
	}
	return vs
}

// TreeCase is a complete, replayable case of the tree checks.
type TreeCase struct {
	Tree *Node `json:"tree"`
	// Wrappers: plain wrappers applied around Tree for the metamorphic relation,
	// innermost first. Each is a node with exactly one kHole kid (plus plain
	// `new` siblings for joins) standing for "the tree so far".
	Wrappers []*Node `json:"wrappers,omitempty"`
	// every-code test: the code (and optionally sentinel) put into the hole
	HoleCode     string `json:"hole_code,omitempty"`
	HoleSentinel string `json:"hole_sentinel,omitempty"`
	HoleMsg      []byte `json:"hole_msg,omitempty"`
}

func (tc *TreeCase) hole() (holeFn, error) {
	if tc.HoleCode == "" {
		return nil, nil
	}
	code, ok := conduiterr.LookupCode(tc.HoleCode)
	if !ok {
		return nil, fmt.Errorf("code %q not registered", tc.HoleCode)
	}
	if tc.HoleSentinel == "" {
		return func() (error, []atom) {
			return conduiterr.New(code, string(tc.HoleMsg)), []atom{{kind: aCoded, code: code, msg: string(tc.HoleMsg), via: "New"}}
		}, nil
	}
	s, ok := sentinelByName[tc.HoleSentinel]
	if !ok {
		return nil, fmt.Errorf("unknown sentinel %q", tc.HoleSentinel)
	}
	return func() (error, []atom) {
		return conduiterr.Wrap(code, string(tc.HoleMsg), s), []atom{
			{kind: aCoded, code: code, msg: string(tc.HoleMsg), via: "Wrap"},
			{kind: aSent, sent: tc.HoleSentinel},
		}
	}, nil
}

// wrapTree nests the wrappers around tree (the wrapper's hole is replaced).
func wrapTree(tree *Node, wrappers []*Node) *Node {
	cur := tree
	for _, w := range wrappers {
		cp := *w
		cp.Kids = make([]*Node, len(w.Kids))
		for i, k := range w.Kids {
			if k.K == kHole {
				cp.Kids[i] = cur
			} else {
				cp.Kids[i] = k
			}
		}
		cur = &cp
	}
	return cur
}

// runTreeCase executes all clauses of one case.
func runTreeCase(tc *TreeCase) (viols, classification, error) {
	hole, err := tc.hole()
	if err != nil {
		return nil, classification{}, err
	}
	e, atoms, err := build(tc.Tree, hole)
	if err != nil {
		return nil, classification{}, err
	}
	if e == nil {
		return nil, classification{}, fmt.Errorf("tree built a nil error")
	}
	vs, c := checkAgainstModel(e, atoms)

	if len(tc.Wrappers) > 0 {
		w, watoms, err := build(wrapTree(tc.Tree, tc.Wrappers), hole)
		if err != nil {
			return nil, c, err
		}
		wvs, _ := checkAgainstModel(w, watoms)
		vs = append(vs, wvs...)
		// metamorphic: k plain wrappers never change what is observed
		a, b := observe(e), observe(w)
		if a.Fatal != b.Fatal {
			vs.add("C20/metamorphic/fatal", "IsFatalError %v -> %v after %d plain wrappers", a.Fatal, b.Fatal, len(tc.Wrappers))
		}
		if a.HasCode != b.HasCode || a.Reason != b.Reason {
			vs.add("C20/metamorphic/code", "code %v %q -> %v %q after %d plain wrappers", a.HasCode, a.Reason, b.HasCode, b.Reason, len(tc.Wrappers))
		}
		if a.Category != b.Category {
			vs.add("C20/metamorphic/category", "gRPC category %s -> %s", a.Category, b.Category)
		}
		if a.ExitCode != b.ExitCode {
			vs.add("C20/metamorphic/exitcode", "exit code %d -> %d after %d plain wrappers", a.ExitCode, b.ExitCode, len(tc.Wrappers))
		}
		if a.APICodes != b.APICodes || a.APIReason != b.APIReason {
			vs.add("C20/metamorphic/api-status", "API statuses %v %v -> %v %v", a.APICodes, a.APIReason, b.APICodes, b.APIReason)
		}
		if a.Sentinels != b.Sentinels {
			vs.add("C20/metamorphic/sentinel", "sentinel set %s -> %s", a.Sentinels, b.Sentinels)
		}
	}
	return vs, c, nil
}
