package p20

import (
	"fmt"
	"testing"
	"unicode/utf8"

	"github.com/conduitio/conduit/pkg/foundation/cerrors/conduiterr"
	"pgregory.net/rapid"
	"verifharness/pbt"
)

func validUTF8(b []byte) bool { return utf8.Valid(b) }

func classesOf(s shape, c classification) []string {
	cls := []string{"tier:" + c.Tier, fmt.Sprintf("exit:%d", c.ExitCode), fmt.Sprintf("depth:%d", s.Depth)}
	if c.Fatal {
		cls = append(cls, "fatal")
	} else if s.Fatal > 0 {
		cls = append(cls, "fatal-mark-hidden-by-opaque")
	}
	if s.Joins > 0 {
		cls = append(cls, "has-join")
	}
	if s.CodedBelowFatal {
		cls = append(cls, "coded-below-fatal")
	}
	if s.Coded >= 2 {
		cls = append(cls, "multi-coded")
	}
	if s.Coded == 1 {
		cls = append(cls, "single-coded")
	}
	if s.WrapOverCoded {
		cls = append(cls, "wrap-pass-through")
	}
	if s.WithCode > 0 {
		cls = append(cls, "withcode-override")
	}
	if s.Opaque {
		cls = append(cls, "opaque-annotation")
	}
	if s.InvalidUTF8 {
		cls = append(cls, "invalid-utf8")
	}
	if s.GRPC > 0 {
		cls = append(cls, "has-grpc-status")
	}
	if s.Valid > 0 {
		cls = append(cls, "has-validation-error")
	}
	if c.Coded != nil {
		cls = append(cls, "category:"+c.Coded.code.GRPCCode().String())
	}
	return cls
}

func reportAll(t *rapid.T, st *pbt.Stats, vs viols, size int, replay any) {
	fail := ""
	for _, v := range vs {
		if st.Report(v.Key, v.Detail, size, replay) {
			fail += "\n  " + v.String()
		}
	}
	if fail != "" {
		t.Fatalf("C20 violated:%s", fail)
	}
}

type replayValue struct {
	Test  string      `json:"test"`
	Tree  *TreeCase   `json:"tree_case,omitempty"`
	Bytes []byte      `json:"bytes,omitempty"`
	Exp   *wireExpect `json:"expect,omitempty"`
	Prod  *ProdCase   `json:"prod_case,omitempty"`
}

// TestC20: generated error trees against the model, plus the metamorphic
// relation "k plain wrappers change nothing".
func TestC20(t *testing.T) {
	st := pbt.For("C20")
	defer st.Finish(t)
	st.SetExtra("registered_codes", fmt.Sprint(len(allCodes())))
	rapid.Check(t, func(t *rapid.T) {
		d := genDepth(t)
		o := &genOpts{coded: true, opaque: true, budget: 40}
		tc := &TreeCase{Tree: genTree(t, d, o)}
		if rapid.IntRange(0, 3).Draw(t, "metamorphic?") > 0 {
			tc.Wrappers = genWrappers(t)
		}
		pbt.MarkCurrent("C20", tc)
		vs, c, err := runTreeCase(tc)
		if err != nil {
			t.Fatalf("harness error (not a finding): %v", err)
		}
		s := shapeOf(tc.Tree, false)
		nt := s.nonTrivial()
		cls := classesOf(s, c)
		if len(tc.Wrappers) > 0 {
			cls = append(cls, "metamorphic")
		}
		st.Case(pbt.Hash(tc), nt, cls...)
		if nt && st.WantSample() {
			st.Sample(tc)
		}
		reportAll(t, st, vs, s.Size+len(tc.Wrappers), replayValue{Test: "tree", Tree: tc})
	})
}

// TestC20EveryCode: a generated context of plain wrappers (wrap / join / fatal
// marks, un-coded siblings) with exactly one coded node; the coded node is
// instantiated with EVERY registered code, as conduiterr.New(code, msg) and as
// the origination shape conduiterr.Wrap(code, msg, sentinel).
func TestC20EveryCode(t *testing.T) {
	st := pbt.For("C20")
	defer st.Finish(t)
	codesList := allCodes()
	st.SetExtra("registered_codes", fmt.Sprint(len(codesList)))
	rapid.Check(t, func(t *rapid.T) {
		d := rapid.IntRange(0, 8).Draw(t, "depth")
		o := &genOpts{coded: false, opaque: false, budget: 16}
		ctx := genContext(t, d, o)
		msg := genMsg(t, "holeMsg")
		sent := sentinelDefs[rapid.IntRange(0, len(sentinelDefs)-1).Draw(t, "holeSentinel")].name
		var wrappers []*Node
		if rapid.IntRange(0, 2).Draw(t, "metamorphic?") == 0 {
			wrappers = genWrappers(t)
		}
		s := shapeOf(ctx, true)
		for i, code := range codesList {
			tc := &TreeCase{Tree: ctx, HoleCode: code.Reason(), HoleMsg: msg}
			if i%2 == 1 {
				tc.HoleSentinel = sent
			}
			if i%7 == 0 { // the metamorphic half doubles the cost; a seventh of the codes per context
				tc.Wrappers = wrappers
			}
			if i == 0 {
				pbt.MarkCurrent("C20", tc)
			}
			vs, c, err := runTreeCase(tc)
			if err != nil {
				t.Fatalf("harness error (not a finding): %v", err)
			}
			// exactly one coded node under plain wrappers: the model's first coded
			// atom must be the hole's code (sanity of the generator itself)
			if c.Coded == nil || c.Coded.code != code {
				t.Fatalf("harness error: context is not plain: %+v", c.Coded)
			}
			if i == 0 {
				cls := append(classesOf(s, c), "every-code-context")
				st.Case(pbt.Hash(tc), s.nonTrivial(), cls...)
			}
			reportAll(t, st, vs, s.Size, replayValue{Test: "tree", Tree: tc})
		}
		st.Class("every-code-instantiations", len(codesList))
	})
}

var _ = conduiterr.Codes
