package p20

// Error trees, the builder that turns a tree into a real error value with the
// repo's constructors, and the reference model ("atoms") computed from the TREE.

import (
	"context"
	"errors"
	"fmt"
	"io"
	"sort"
	"syscall"

	"github.com/conduitio/conduit/pkg/connector"
	"github.com/conduitio/conduit/pkg/foundation/cerrors"
	"github.com/conduitio/conduit/pkg/foundation/cerrors/conduiterr"
	"github.com/conduitio/conduit/pkg/orchestrator"
	"github.com/conduitio/conduit/pkg/pipeline"
	conn_plugin "github.com/conduitio/conduit/pkg/plugin/connector"
	"github.com/conduitio/conduit/pkg/processor"
	"google.golang.org/grpc/codes"
	grpcstatus "google.golang.org/grpc/status"

	// Blank imports: every importable package that registers conduiterr codes at
	// init (the repo's own barrel cmd/conduit/internal/llmsgen/allcodes is
	// internal; cmd/conduit/root/{pipelines,generate} pull in the internal
	// deploy/repair/generate packages transitively).
	_ "github.com/conduitio/conduit/cmd/conduit/root/generate"
	_ "github.com/conduitio/conduit/cmd/conduit/root/pipelines"
	_ "github.com/conduitio/conduit/pkg/lifecycle-poc"
	_ "github.com/conduitio/conduit/pkg/lifecycle-poc/funnel"
	_ "github.com/conduitio/conduit/pkg/lifecycle/stream"
	_ "github.com/conduitio/conduit/pkg/provisioning"
	_ "github.com/conduitio/conduit/pkg/provisioning/config"
	_ "github.com/conduitio/conduit/pkg/registry"
	_ "github.com/conduitio/conduit/pkg/registry/index"
	_ "github.com/conduitio/conduit/pkg/registry/policy"
	_ "github.com/conduitio/conduit/pkg/registry/trust"
	_ "github.com/conduitio/conduit/pkg/scaffold"
)

// Codes for the gRPC categories no production package uses today, registered
// from a package-level initializer exactly like the repo's own
// exitcode_test.go does, so that the ADR table is reachable through the
// ConduitError tier for every category (Canceled/OK excluded: the repo's tests
// state that no domain code is ever registered there).
var (
	_ = conduiterr.Register("test.c20.unknown", codes.Unknown)
	_ = conduiterr.Register("test.c20.out_of_range", codes.OutOfRange)
	_ = conduiterr.Register("test.c20.unauthenticated", codes.Unauthenticated)
)

// ---------------------------------------------------------------------------
// tree

const (
	kNew        = "new"        // cerrors.New(M)
	kSent       = "sent"       // a real sentinel (S = name)
	kGRPC       = "grpc"       // status.New(G, M).Err()
	kCoded      = "coded"      // conduiterr.New(C, M) (+ Fl assigned afterwards)
	kHole       = "hole"       // substituted at build time (every-code test)
	kErrorf     = "errorf"     // cerrors.Errorf(single %w format F, ...)
	kFmtW       = "fmtw"       // fmt.Errorf(single %w format F, ...)
	kFmtMulti   = "fmtmulti"   // fmt.Errorf("%w; %w; ...", kids...)
	kJoin       = "join"       // cerrors.Join / errors.Join (F odd => errors.Join), nils per NilMask
	kFatal      = "fatal"      // cerrors.FatalError(kid)
	kWrap       = "wrap"       // conduiterr.Wrap(C, M, kid) (+ Fl assigned afterwards)
	kWithCode   = "withcode"   // conduiterr.WithCode(kid, C)
	kValidation = "validation" // &conn_plugin.ValidationError{Err: kid}
	kOpaque     = "opaque"     // cerrors.Errorf("...: %v", kid): annotation that does NOT wrap
)

// Fields are the structured ConduitError fields a node sets after construction.
type Fields struct {
	ConfigPath []byte `json:"cp,omitempty"`
	Suggestion []byte `json:"sg,omitempty"`
	DocsURL    []byte `json:"du,omitempty"`
	HasFix     bool   `json:"hf,omitempty"`
	FixPath    []byte `json:"fp,omitempty"`
	FixOp      []byte `json:"fo,omitempty"`
	FixValue   []byte `json:"fv,omitempty"`
}

// Node is one node of a generated error tree. Messages are byte slices so that
// invalid UTF-8 survives the JSON replay file.
type Node struct {
	K       string  `json:"k"`
	M       []byte  `json:"m,omitempty"`
	F       int     `json:"f,omitempty"`
	C       string  `json:"c,omitempty"`
	G       uint32  `json:"g,omitempty"`
	S       string  `json:"s,omitempty"`
	Fl      *Fields `json:"fl,omitempty"`
	NilMask uint16  `json:"nil,omitempty"` // Join: bit i set => a nil argument before kid i (bit len(kids): trailing nil)
	Kids    []*Node `json:"kids,omitempty"`
}

func (n *Node) size() int {
	if n == nil {
		return 0
	}
	s := 1
	for _, k := range n.Kids {
		s += k.size()
	}
	return s
}

func (n *Node) depth() int {
	d := 0
	for _, k := range n.Kids {
		if kd := k.depth() + 1; kd > d {
			d = kd
		}
	}
	return d
}

func (n *Node) walk(f func(n *Node, underFatal bool), underFatal bool) {
	f(n, underFatal)
	uf := underFatal || n.K == kFatal
	for _, k := range n.Kids {
		k.walk(f, uf)
	}
}

// single-%w formats accepted by both cerrors.Errorf (= xerrors.Errorf, whose doc
// says "It is invalid to include more than one %w verb") and fmt.Errorf.
// Arguments are positional and unnumbered (xerrors: "TODO: handle %[N]w").
var wFormats = []struct {
	format string
	args   func(m string, child error) []any
}{
	{"ctx: %w", func(m string, c error) []any { return []any{c} }},
	{"task %s failed: %w", func(m string, c error) []any { return []any{m, c} }},
	{"%w", func(m string, c error) []any { return []any{c} }},
	{"%w (while handling)", func(m string, c error) []any { return []any{c} }},
	{"before %w after", func(m string, c error) []any { return []any{c} }},
	{"task %s: %w (attempt %d)", func(m string, c error) []any { return []any{m, c, len(m)} }},
	{"x %w", func(m string, c error) []any { return []any{c} }},
	{"n=%d q=%q: %w", func(m string, c error) []any { return []any{len(m), m, c} }},
}

var opaqueFormats = []string{"ctx: %v", "seen %v here", "ctx: %s"}

// sentinels: real exported error values. The name is what the replay file stores.
type sentinelDef struct {
	name string
	err  error
}

var sentinelDefs = []sentinelDef{
	{"pipeline.ErrGracefulShutdown", pipeline.ErrGracefulShutdown},
	{"pipeline.ErrForceStop", pipeline.ErrForceStop},
	{"pipeline.ErrPipelineCannotRecover", pipeline.ErrPipelineCannotRecover},
	{"pipeline.ErrPipelineRunning", pipeline.ErrPipelineRunning},
	{"pipeline.ErrPipelineNotRunning", pipeline.ErrPipelineNotRunning},
	{"pipeline.ErrInstanceNotFound", pipeline.ErrInstanceNotFound},
	{"pipeline.ErrNameMissing", pipeline.ErrNameMissing},
	{"pipeline.ErrIDMissing", pipeline.ErrIDMissing},
	{"pipeline.ErrNameAlreadyExists", pipeline.ErrNameAlreadyExists},
	{"pipeline.ErrInvalidCharacters", pipeline.ErrInvalidCharacters},
	{"pipeline.ErrNameOverLimit", pipeline.ErrNameOverLimit},
	{"pipeline.ErrIDOverLimit", pipeline.ErrIDOverLimit},
	{"pipeline.ErrDescriptionOverLimit", pipeline.ErrDescriptionOverLimit},
	{"pipeline.ErrConnectorIDNotFound", pipeline.ErrConnectorIDNotFound},
	{"pipeline.ErrProcessorIDNotFound", pipeline.ErrProcessorIDNotFound},
	{"connector.ErrInstanceNotFound", connector.ErrInstanceNotFound},
	{"connector.ErrInvalidConnectorType", connector.ErrInvalidConnectorType},
	{"connector.ErrInvalidConnectorStateType", connector.ErrInvalidConnectorStateType},
	{"connector.ErrProcessorIDNotFound", connector.ErrProcessorIDNotFound},
	{"connector.ErrConnectorRunning", connector.ErrConnectorRunning},
	{"connector.ErrInvalidCharacters", connector.ErrInvalidCharacters},
	{"connector.ErrIDOverLimit", connector.ErrIDOverLimit},
	{"connector.ErrNameOverLimit", connector.ErrNameOverLimit},
	{"connector.ErrNameMissing", connector.ErrNameMissing},
	{"connector.ErrIDMissing", connector.ErrIDMissing},
	{"processor.ErrInstanceNotFound", processor.ErrInstanceNotFound},
	{"processor.ErrProcessorRunning", processor.ErrProcessorRunning},
	{"orchestrator.ErrInvalidProcessorParentType", orchestrator.ErrInvalidProcessorParentType},
	{"orchestrator.ErrPipelineHasProcessorsAttached", orchestrator.ErrPipelineHasProcessorsAttached},
	{"orchestrator.ErrPipelineHasConnectorsAttached", orchestrator.ErrPipelineHasConnectorsAttached},
	{"orchestrator.ErrConnectorHasProcessorsAttached", orchestrator.ErrConnectorHasProcessorsAttached},
	{"orchestrator.ErrImmutableProvisionedByConfig", orchestrator.ErrImmutableProvisionedByConfig},
	{"cerrors.ErrNotImpl", cerrors.ErrNotImpl},
	{"cerrors.ErrEmptyID", cerrors.ErrEmptyID},
	{"context.Canceled", context.Canceled},
	{"context.DeadlineExceeded", context.DeadlineExceeded},
	{"syscall.ECONNREFUSED", syscall.ECONNREFUSED},
	{"syscall.EADDRINUSE", syscall.EADDRINUSE},
	{"syscall.ENOENT", syscall.ENOENT},
	{"io.EOF", io.EOF},
}

var sentinelByName = func() map[string]error {
	m := map[string]error{}
	for _, s := range sentinelDefs {
		m[s.name] = s.err
	}
	return m
}()

// prodPairs: the (code, sentinel) pairs production code builds at the
// origination site with conduiterr.Wrap(Code, msg, Sentinel) (pkg/pipeline/service.go,
// pkg/connector/{instance,service}.go, pkg/orchestrator/{pipelines,connectors,codes}.go and
// pkg/http/api/status/codes_contract_test.go).
var prodPairs = []struct{ code, sentinel string }{
	{"pipeline.name_missing", "pipeline.ErrNameMissing"},
	{"pipeline.instance_not_found", "pipeline.ErrInstanceNotFound"},
	{"pipeline.name_already_exists", "pipeline.ErrNameAlreadyExists"},
	{"pipeline.running", "pipeline.ErrPipelineRunning"},
	{"pipeline.not_running", "pipeline.ErrPipelineNotRunning"},
	{"connector.invalid_type", "connector.ErrInvalidConnectorType"},
	{"connector.instance_not_found", "connector.ErrInstanceNotFound"},
	{"connector.running", "connector.ErrConnectorRunning"},
	{"processor.instance_not_found", "processor.ErrInstanceNotFound"},
	{"orchestrator.invalid_processor_parent_type", "orchestrator.ErrInvalidProcessorParentType"},
	{"orchestrator.pipeline_has_connectors_attached", "orchestrator.ErrPipelineHasConnectorsAttached"},
	{"orchestrator.pipeline_has_processors_attached", "orchestrator.ErrPipelineHasProcessorsAttached"},
	{"orchestrator.connector_has_processors_attached", "orchestrator.ErrConnectorHasProcessorsAttached"},
	{"orchestrator.immutable_provisioned_by_config", "orchestrator.ErrImmutableProvisionedByConfig"},
}

// allCodes is the registry as the test binary sees it, sorted by reason
// (conduiterr.Codes() sorts), hence a deterministic index space for the draws.
func allCodes() []conduiterr.Code { return conduiterr.Codes() }

// ---------------------------------------------------------------------------
// model

type atomKind int

const (
	aFatal atomKind = iota
	aCoded
	aGRPC
	aSent
	aValidation
	aPlain
)

type mFields struct {
	ConfigPath, Suggestion, DocsURL string
	Fix                             *conduiterr.Fix
}

// atom is one classification-relevant error that errors.Is/As can reach, in
// the pre-order, depth-first order errors.As documents.
type atom struct {
	kind atomKind
	code conduiterr.Code // aCoded: effective code
	grpc codes.Code      // aGRPC
	sent string          // aSent
	msg  string          // aCoded: documented Message
	fl   mFields         // aCoded: documented structured fields
	via  string          // aCoded: constructor
}

func firstCoded(as []atom) *atom {
	for i := range as {
		if as[i].kind == aCoded {
			return &as[i]
		}
	}
	return nil
}

func hasFatal(as []atom) bool {
	for _, a := range as {
		if a.kind == aFatal {
			return true
		}
	}
	return false
}

func applyFields(ce *conduiterr.ConduitError, m *mFields, f *Fields) {
	if f == nil {
		return
	}
	// plain assignments after construction, as production code does
	// (e.g. funnel.validateAckPositions: ce.Suggestion = ...).
	if len(f.ConfigPath) > 0 {
		ce.ConfigPath, m.ConfigPath = string(f.ConfigPath), string(f.ConfigPath)
	}
	if len(f.Suggestion) > 0 {
		ce.Suggestion, m.Suggestion = string(f.Suggestion), string(f.Suggestion)
	}
	if len(f.DocsURL) > 0 {
		ce.DocsURL, m.DocsURL = string(f.DocsURL), string(f.DocsURL)
	}
	if f.HasFix {
		ce.Fix = &conduiterr.Fix{ConfigPath: string(f.FixPath), Op: string(f.FixOp), Value: string(f.FixValue)}
		m.Fix = &conduiterr.Fix{ConfigPath: string(f.FixPath), Op: string(f.FixOp), Value: string(f.FixValue)}
	}
}

type holeFn func() (error, []atom)

// build constructs the real error for n with the repo's constructors and, in
// the same bottom-up pass, the model's atom list. The atom list depends on the
// tree only; the single place the model looks at a built value is
// WithCode's documented "Message is err.Error()".
func build(n *Node, hole holeFn) (error, []atom, error) {
	switch n.K {
	case kNew:
		return cerrors.New(string(n.M)), []atom{{kind: aPlain}}, nil
	case kSent:
		e, ok := sentinelByName[n.S]
		if !ok {
			return nil, nil, fmt.Errorf("unknown sentinel %q", n.S)
		}
		return e, []atom{{kind: aSent, sent: n.S}}, nil
	case kGRPC:
		if n.G == 0 {
			return nil, nil, fmt.Errorf("grpc leaf with codes.OK is not an error")
		}
		return grpcstatus.New(codes.Code(n.G), string(n.M)).Err(), []atom{{kind: aGRPC, grpc: codes.Code(n.G)}}, nil
	case kCoded:
		code, ok := conduiterr.LookupCode(n.C)
		if !ok {
			return nil, nil, fmt.Errorf("code %q not registered", n.C)
		}
		ce := conduiterr.New(code, string(n.M))
		a := atom{kind: aCoded, code: code, msg: string(n.M), via: "New"}
		applyFields(ce, &a.fl, n.Fl)
		return ce, []atom{a}, nil
	case kHole:
		if hole == nil {
			return nil, nil, fmt.Errorf("hole without substitution")
		}
		e, as := hole()
		return e, as, nil
	}

	kidErrs := make([]error, len(n.Kids))
	kidAtoms := make([][]atom, len(n.Kids))
	for i, k := range n.Kids {
		e, as, err := build(k, hole)
		if err != nil {
			return nil, nil, err
		}
		kidErrs[i], kidAtoms[i] = e, as
	}
	concat := func() []atom {
		var out []atom
		for _, as := range kidAtoms {
			out = append(out, as...)
		}
		return out
	}
	need := func(k int) error {
		if len(n.Kids) != k {
			return fmt.Errorf("%s needs %d kid(s), has %d", n.K, k, len(n.Kids))
		}
		return nil
	}

	switch n.K {
	case kErrorf, kFmtW:
		if err := need(1); err != nil {
			return nil, nil, err
		}
		f := wFormats[mod(n.F, len(wFormats))]
		args := f.args(string(n.M), kidErrs[0])
		if n.K == kErrorf {
			return cerrors.Errorf(f.format, args...), kidAtoms[0], nil
		}
		return fmt.Errorf(f.format, args...), kidAtoms[0], nil //nolint
	case kFmtMulti:
		if len(n.Kids) < 2 {
			return nil, nil, fmt.Errorf("fmtmulti needs >=2 kids")
		}
		format := "multi"
		args := make([]any, len(kidErrs))
		for i, e := range kidErrs {
			format += "; %w"
			args[i] = e
		}
		return fmt.Errorf(format, args...), concat(), nil //nolint
	case kJoin:
		if len(n.Kids) < 1 {
			return nil, nil, fmt.Errorf("join needs >=1 kid")
		}
		var args []error
		for i, e := range kidErrs {
			if n.NilMask&(1<<uint(i)) != 0 {
				args = append(args, nil) // "Any nil error values are discarded."
			}
			args = append(args, e)
		}
		if n.NilMask&(1<<uint(len(kidErrs))) != 0 {
			args = append(args, nil)
		}
		if n.F%2 == 1 {
			return errors.Join(args...), concat(), nil
		}
		return cerrors.Join(args...), concat(), nil
	case kFatal:
		if err := need(1); err != nil {
			return nil, nil, err
		}
		e := cerrors.FatalError(kidErrs[0])
		if hasFatal(kidAtoms[0]) {
			return e, kidAtoms[0], nil // "already a fatal error"
		}
		return e, append([]atom{{kind: aFatal}}, kidAtoms[0]...), nil
	case kWrap:
		if err := need(1); err != nil {
			return nil, nil, err
		}
		code, ok := conduiterr.LookupCode(n.C)
		if !ok {
			return nil, nil, fmt.Errorf("code %q not registered", n.C)
		}
		ce := conduiterr.Wrap(code, string(n.M), kidErrs[0])
		a := atom{kind: aCoded, code: code, msg: string(n.M), via: "Wrap"}
		if in := firstCoded(kidAtoms[0]); in != nil {
			// "If cause already carries a *ConduitError, the returned error takes
			// that inner Code (and inherits its structured fields where the wrap
			// does not set them)"
			a.code = in.code
			a.fl = in.fl
			a.via = "Wrap(pass-through)"
		}
		applyFields(ce, &a.fl, n.Fl)
		return ce, append([]atom{a}, kidAtoms[0]...), nil
	case kWithCode:
		if err := need(1); err != nil {
			return nil, nil, err
		}
		code, ok := conduiterr.LookupCode(n.C)
		if !ok {
			return nil, nil, fmt.Errorf("code %q not registered", n.C)
		}
		ce := conduiterr.WithCode(kidErrs[0], code)
		// "it always adopts code"; "The returned error's Message is err.Error()";
		// "Structured fields ... are inherited from an inner ConduitError, if any"
		a := atom{kind: aCoded, code: code, msg: kidErrs[0].Error(), via: "WithCode"}
		if in := firstCoded(kidAtoms[0]); in != nil {
			a.fl = in.fl
		}
		return ce, append([]atom{a}, kidAtoms[0]...), nil
	case kValidation:
		if err := need(1); err != nil {
			return nil, nil, err
		}
		return &conn_plugin.ValidationError{Err: kidErrs[0]}, append([]atom{{kind: aValidation}}, kidAtoms[0]...), nil
	case kOpaque:
		if err := need(1); err != nil {
			return nil, nil, err
		}
		// %v / %s annotate without wrapping (xerrors doc: only ": %w" / %w give
		// an Unwrap method): nothing below is reachable any more.
		return cerrors.Errorf(opaqueFormats[mod(n.F, len(opaqueFormats))], kidErrs[0]), []atom{{kind: aPlain}}, nil
	}
	return nil, nil, fmt.Errorf("unknown node kind %q", n.K)
}

func mod(a, b int) int {
	a %= b
	if a < 0 {
		a += b
	}
	return a
}

// ---------------------------------------------------------------------------
// classification of a model

// adrTable is the table of docs/architecture-decision-records/
// 20260706-deterministic-cli-exit-codes.md ("gRPC category -> bucket mapping").
var adrTable = map[codes.Code]int{
	codes.OK: 0, codes.Canceled: 0,
	codes.Internal: 1, codes.Unknown: 1, codes.DataLoss: 1, codes.Aborted: 1, codes.Unimplemented: 1,
	codes.InvalidArgument: 2, codes.NotFound: 2, codes.AlreadyExists: 2, codes.FailedPrecondition: 2, codes.OutOfRange: 2,
	codes.Unavailable: 3, codes.DeadlineExceeded: 3, codes.ResourceExhausted: 3, codes.Unauthenticated: 3, codes.PermissionDenied: 3,
}

type classification struct {
	Fatal    bool
	Tier     string // "canceled" | "coded" | "grpc" | "env-sentinel" | "plain"
	Coded    *atom  // first ConduitError in pre-order (nil if none)
	ExitCode int
	Sentinel map[string]bool
	Valid    bool // a ValidationError is reachable
}

func hasSent(as []atom, name string) bool {
	for _, a := range as {
		if a.kind == aSent && a.sent == name {
			return true
		}
	}
	return false
}

// classify applies the ADR's classification order to the model.
func classify(as []atom) classification {
	c := classification{Fatal: hasFatal(as), Coded: firstCoded(as), Sentinel: map[string]bool{}}
	var firstGRPC *atom
	for i := range as {
		switch as[i].kind {
		case aSent:
			c.Sentinel[as[i].sent] = true
		case aValidation:
			c.Valid = true
		case aGRPC:
			if firstGRPC == nil {
				firstGRPC = &as[i]
			}
		}
	}
	switch {
	case c.Sentinel["context.Canceled"]: // step 1
		c.Tier, c.ExitCode = "canceled", 0
	case c.Coded != nil: // step 2
		c.Tier, c.ExitCode = "coded", adrTable[c.Coded.code.GRPCCode()]
	case firstGRPC != nil: // step 3
		c.Tier, c.ExitCode = "grpc", adrTable[firstGRPC.grpc]
	case c.Sentinel["syscall.ECONNREFUSED"] || c.Sentinel["syscall.EADDRINUSE"]: // step 4
		c.Tier, c.ExitCode = "env-sentinel", 3
	default: // step 5
		c.Tier, c.ExitCode = "plain", 1
	}
	return c
}

// API boundary table (pkg/http/api/status/status.go and its tests): sentinel ->
// gRPC category for errors that carry no ConduitError.
var apiCommon = map[string]codes.Code{
	"cerrors.ErrNotImpl":                             codes.Unimplemented,
	"cerrors.ErrEmptyID":                             codes.InvalidArgument,
	"pipeline.ErrPipelineRunning":                    codes.FailedPrecondition,
	"pipeline.ErrPipelineNotRunning":                 codes.FailedPrecondition,
	"pipeline.ErrNameAlreadyExists":                  codes.AlreadyExists,
	"connector.ErrConnectorRunning":                  codes.FailedPrecondition,
	"orchestrator.ErrPipelineHasConnectorsAttached":  codes.FailedPrecondition,
	"orchestrator.ErrPipelineHasProcessorsAttached":  codes.FailedPrecondition,
	"orchestrator.ErrConnectorHasProcessorsAttached": codes.FailedPrecondition,
	"orchestrator.ErrImmutableProvisionedByConfig":   codes.FailedPrecondition,
	"<validation>":                                   codes.FailedPrecondition,
}

var apiSpecific = map[string]map[string]codes.Code{
	"PipelineError":  {"pipeline.ErrNameMissing": codes.InvalidArgument, "pipeline.ErrInstanceNotFound": codes.NotFound},
	"ConnectorError": {"connector.ErrInvalidConnectorType": codes.InvalidArgument, "connector.ErrInstanceNotFound": codes.NotFound},
	"ProcessorError": {"orchestrator.ErrInvalidProcessorParentType": codes.InvalidArgument, "processor.ErrInstanceNotFound": codes.NotFound},
	"PluginError":    {},
}

// apiCategory returns the category the API boundary fn must answer for an
// un-coded error, and whether the tables determine it (they do unless two
// reachable sentinels map to different categories, in which case only the
// metamorphic relation is asserted).
func apiCategory(fn string, c classification) (codes.Code, bool) {
	set := map[codes.Code]bool{}
	names := make([]string, 0, len(c.Sentinel)+1)
	for s := range c.Sentinel {
		names = append(names, s)
	}
	if c.Valid {
		names = append(names, "<validation>")
	}
	sort.Strings(names)
	for _, s := range names {
		if cat, ok := apiSpecific[fn][s]; ok {
			set[cat] = true
		} else if cat, ok := apiCommon[s]; ok {
			set[cat] = true
		}
	}
	switch len(set) {
	case 0:
		return codes.Internal, true
	case 1:
		for cat := range set {
			return cat, true
		}
	}
	return 0, false
}
