package p20

import (
	"pgregory.net/rapid"
)

// message pool: includes empty, invalid UTF-8 of several shapes, control
// characters, HTML/JSON-special characters, format verbs (only ever passed as
// ARGUMENTS, never as a format string).
var msgPool = [][]byte{
	[]byte(""),
	[]byte("boom"),
	[]byte("pipeline p1: connector c7 not found"),
	[]byte("msg with \"quotes\" and \n newline\ttab"),
	[]byte("bad \x82 utf8"),
	{0xff, 0xfe},
	[]byte("ünïcödé ✓ 日本語"),
	[]byte("a\x00b"),
	[]byte("truncated \xc3"),
	[]byte("%w %s %d %!w(x) 100%"),
	[]byte("<html>&amp;'\\"),
	[]byte("line\u2028sep\u2029"),
	{0xed, 0xa0, 0x80},       // CESU surrogate: invalid UTF-8
	{0xf4, 0x90, 0x80, 0x80}, // > U+10FFFF
	[]byte("� already replaced"),
	[]byte("/connectors/1/plugin"),
	[]byte("https://conduit.io/docs/errors/x"),
}

func genMsg(t *rapid.T, label string) []byte {
	if rapid.IntRange(0, 9).Draw(t, label+":src") < 7 {
		return msgPool[rapid.IntRange(0, len(msgPool)-1).Draw(t, label+":pool")]
	}
	return rapid.SliceOfN(rapid.Byte(), 0, 10).Draw(t, label+":bytes")
}

func genFields(t *rapid.T) *Fields {
	if rapid.IntRange(0, 9).Draw(t, "fields?") < 5 {
		return nil
	}
	f := &Fields{}
	mask := rapid.IntRange(1, 15).Draw(t, "fieldmask")
	if mask&1 != 0 {
		f.ConfigPath = genMsg(t, "configPath")
	}
	if mask&2 != 0 {
		f.Suggestion = genMsg(t, "suggestion")
	}
	if mask&4 != 0 {
		f.DocsURL = genMsg(t, "docsURL")
	}
	if mask&8 != 0 {
		f.HasFix = true
		f.FixPath = genMsg(t, "fixPath")
		f.FixOp = []byte(rapid.SampledFrom([]string{"set", "remove", "add", "", "s\xffet"}).Draw(t, "fixOp"))
		f.FixValue = genMsg(t, "fixValue")
	}
	return f
}

type genOpts struct {
	coded  bool // coded leaves / Wrap / WithCode allowed
	opaque bool // non-wrapping annotations allowed
	budget int  // remaining node budget
}

var leafKinds = weighted(map[string]int{kNew: 12, kSent: 22, kGRPC: 12, kCoded: 34})
var leafKindsUncoded = weighted(map[string]int{kNew: 14, kSent: 22, kGRPC: 10})
var innerKinds = weighted(map[string]int{kErrorf: 20, kFmtW: 8, kFmtMulti: 5, kJoin: 15, kFatal: 12, kWrap: 12, kWithCode: 8, kValidation: 2, kOpaque: 3, "prodpair": 6})
var innerKindsPlain = weighted(map[string]int{kErrorf: 20, kFmtW: 8, kFmtMulti: 5, kJoin: 15, kFatal: 10, kValidation: 2})

// weighted expands a weight table into a slice in a fixed (sorted) order, so
// that no map iteration order leaks into the draws.
func weighted(w map[string]int) []string {
	order := []string{kNew, kSent, kGRPC, kCoded, kErrorf, kFmtW, kFmtMulti, kJoin, kFatal, kWrap, kWithCode, kValidation, kOpaque, "prodpair"}
	var out []string
	for _, k := range order {
		for i := 0; i < w[k]; i++ {
			out = append(out, k)
		}
	}
	return out
}

func genCodeReason(t *rapid.T) string {
	cs := allCodes()
	return cs[rapid.IntRange(0, len(cs)-1).Draw(t, "code")].Reason()
}

func genLeaf(t *rapid.T, o *genOpts) *Node {
	o.budget--
	kinds := leafKinds
	if !o.coded {
		kinds = leafKindsUncoded
	}
	switch k := rapid.SampledFrom(kinds).Draw(t, "leaf"); k {
	case kNew:
		return &Node{K: kNew, M: genMsg(t, "msg")}
	case kSent:
		if rapid.IntRange(0, 9).Draw(t, "exitcodeSentinel?") >= 8 {
			// the sentinels the exit-code classifier looks at
			return &Node{K: kSent, S: rapid.SampledFrom([]string{"context.Canceled", "syscall.ECONNREFUSED", "syscall.EADDRINUSE", "context.DeadlineExceeded"}).Draw(t, "sentinel")}
		}
		return &Node{K: kSent, S: sentinelDefs[rapid.IntRange(0, len(sentinelDefs)-1).Draw(t, "sentinel")].name}
	case kGRPC:
		return &Node{K: kGRPC, G: uint32(rapid.IntRange(1, 16).Draw(t, "grpc")), M: genMsg(t, "msg")}
	default:
		return &Node{K: kCoded, C: genCodeReason(t), M: genMsg(t, "msg"), Fl: genFields(t)}
	}
}

// genTree generates a tree of depth exactly d (unless the node budget runs out:
// then side branches collapse to leaves; the spine always reaches depth d).
func genTree(t *rapid.T, d int, o *genOpts) *Node {
	if d <= 0 {
		return genLeaf(t, o)
	}
	kinds := innerKinds
	if !o.coded {
		kinds = innerKindsPlain
	}
	k := rapid.SampledFrom(kinds).Draw(t, "inner")
	if k == kOpaque && !o.opaque {
		k = kErrorf
	}
	o.budget--
	side := func() *Node {
		if o.budget <= 0 {
			return genLeaf(t, o)
		}
		return genTree(t, rapid.IntRange(0, d-1).Draw(t, "sideDepth"), o)
	}
	switch k {
	case kErrorf, kFmtW:
		return &Node{K: k, F: rapid.IntRange(0, len(wFormats)-1).Draw(t, "format"), M: genMsg(t, "arg"), Kids: []*Node{genTree(t, d-1, o)}}
	case kOpaque:
		return &Node{K: k, F: rapid.IntRange(0, len(opaqueFormats)-1).Draw(t, "format"), Kids: []*Node{genTree(t, d-1, o)}}
	case kFatal, kValidation:
		return &Node{K: k, Kids: []*Node{genTree(t, d-1, o)}}
	case kWrap:
		return &Node{K: kWrap, C: genCodeReason(t), M: genMsg(t, "msg"), Fl: genFields(t), Kids: []*Node{genTree(t, d-1, o)}}
	case kWithCode:
		return &Node{K: kWithCode, C: genCodeReason(t), Kids: []*Node{genTree(t, d-1, o)}}
	case "prodpair":
		// the production shape conduiterr.Wrap(CodeX, msg, ErrX); depth 1, so it
		// only stands alone at d==1, otherwise it becomes the spine's end below a
		// plain wrapper.
		p := prodPairs[rapid.IntRange(0, len(prodPairs)-1).Draw(t, "pair")]
		pair := &Node{K: kWrap, C: p.code, M: genMsg(t, "msg"), Fl: genFields(t), Kids: []*Node{{K: kSent, S: p.sentinel}}}
		o.budget--
		if d == 1 {
			return pair
		}
		// keep the requested depth: plain spine above the pair
		cur := pair
		for i := 1; i < d; i++ {
			o.budget--
			cur = &Node{K: kErrorf, F: rapid.IntRange(0, len(wFormats)-1).Draw(t, "format"), M: genMsg(t, "arg"), Kids: []*Node{cur}}
		}
		return cur
	default: // kJoin, kFmtMulti
		minKids := 1
		if k == kFmtMulti {
			minKids = 2
		}
		n := rapid.IntRange(minKids, 4).Draw(t, "arity")
		spine := rapid.IntRange(0, n-1).Draw(t, "spinePos")
		kids := make([]*Node, n)
		for i := range kids {
			if i == spine {
				kids[i] = genTree(t, d-1, o)
			} else {
				kids[i] = side()
			}
		}
		node := &Node{K: k, Kids: kids}
		if k == kJoin {
			node.F = rapid.IntRange(0, 1).Draw(t, "joinImpl")
			if rapid.IntRange(0, 3).Draw(t, "nils?") == 0 {
				node.NilMask = uint16(rapid.IntRange(1, (1<<uint(n+1))-1).Draw(t, "nilMask"))
			}
		}
		return node
	}
}

// genContext generates a tree of plain wrappers (no coded node anywhere) of
// depth d whose spine ends in a hole.
func genContext(t *rapid.T, d int, o *genOpts) *Node {
	if d <= 0 {
		return &Node{K: kHole}
	}
	k := rapid.SampledFrom(innerKindsPlain).Draw(t, "ctxInner")
	switch k {
	case kErrorf, kFmtW:
		return &Node{K: k, F: rapid.IntRange(0, len(wFormats)-1).Draw(t, "format"), M: genMsg(t, "arg"), Kids: []*Node{genContext(t, d-1, o)}}
	case kFatal, kValidation:
		return &Node{K: k, Kids: []*Node{genContext(t, d-1, o)}}
	default:
		minKids := 1
		if k == kFmtMulti {
			minKids = 2
		}
		n := rapid.IntRange(minKids, 3).Draw(t, "arity")
		spine := rapid.IntRange(0, n-1).Draw(t, "spinePos")
		kids := make([]*Node, n)
		for i := range kids {
			if i == spine {
				kids[i] = genContext(t, d-1, o)
			} else {
				kids[i] = genTree(t, rapid.IntRange(0, min(2, d-1)).Draw(t, "sideDepth"), o)
			}
		}
		return &Node{K: k, F: rapid.IntRange(0, 1).Draw(t, "joinImpl"), Kids: kids}
	}
}

// genWrappers: k plain wrappers / joins "that do not add a classified error in
// front": the only siblings they add are plain cerrors.New leaves.
func genWrappers(t *rapid.T) []*Node {
	k := rapid.IntRange(1, 6).Draw(t, "k")
	ws := make([]*Node, k)
	for i := range ws {
		h := &Node{K: kHole}
		plain := func() *Node { return &Node{K: kNew, M: genMsg(t, "sibling")} }
		switch rapid.IntRange(0, 7).Draw(t, "wrapper") {
		case 0, 1, 2:
			ws[i] = &Node{K: kErrorf, F: rapid.IntRange(0, len(wFormats)-1).Draw(t, "format"), M: genMsg(t, "arg"), Kids: []*Node{h}}
		case 3:
			ws[i] = &Node{K: kFmtW, F: rapid.IntRange(0, len(wFormats)-1).Draw(t, "format"), M: genMsg(t, "arg"), Kids: []*Node{h}}
		case 4:
			ws[i] = &Node{K: kJoin, Kids: []*Node{h}, NilMask: uint16(rapid.IntRange(0, 3).Draw(t, "nilMask"))}
		case 5:
			ws[i] = &Node{K: kJoin, F: 1, Kids: []*Node{h, plain()}}
		case 6:
			ws[i] = &Node{K: kJoin, Kids: []*Node{plain(), h, plain()}}
		default:
			ws[i] = &Node{K: kFmtMulti, Kids: []*Node{plain(), h}}
		}
	}
	return ws
}

// genDepth: roughly a fifth shallow trees (depth 0-2), the rest depth 3-8; the
// selector shrinks towards shallow.
func genDepth(t *rapid.T) int {
	if rapid.IntRange(0, 9).Draw(t, "deep?") < 1 {
		return rapid.IntRange(0, 2).Draw(t, "depth")
	}
	return 3 + rapid.IntRange(0, 5).Draw(t, "depth")
}

// shape facts of a tree used for the non-trivial rule and the class histogram
type shape struct {
	Depth, Size       int
	Joins, Coded      int // join-like nodes (Join / multi-%w), coded nodes (New/Wrap/WithCode)
	Fatal             int
	CodedBelowFatal   bool
	WithCode, Wrap    int
	WrapOverCoded     bool
	Opaque            bool
	InvalidUTF8       bool
	GRPC, Sent, Valid int
}

func shapeOf(n *Node, holeIsCoded bool) shape {
	s := shape{Depth: n.depth(), Size: n.size()}
	var hasCoded func(*Node) bool
	hasCoded = func(x *Node) bool {
		if x.K == kCoded || x.K == kWrap || x.K == kWithCode || (x.K == kHole && holeIsCoded) {
			return true
		}
		for _, k := range x.Kids {
			if hasCoded(k) {
				return true
			}
		}
		return false
	}
	n.walk(func(x *Node, underFatal bool) {
		coded := false
		switch x.K {
		case kJoin, kFmtMulti:
			s.Joins++
		case kFatal:
			s.Fatal++
		case kCoded:
			coded = true
		case kHole:
			coded = holeIsCoded
		case kWrap:
			coded = true
			s.Wrap++
			if hasCoded(x.Kids[0]) {
				s.WrapOverCoded = true
			}
		case kWithCode:
			coded = true
			s.WithCode++
		case kOpaque:
			s.Opaque = true
		case kGRPC:
			s.GRPC++
		case kSent:
			s.Sent++
		case kValidation:
			s.Valid++
		}
		if coded {
			s.Coded++
			if underFatal {
				s.CodedBelowFatal = true
			}
		}
		if !validUTF8(x.M) || (x.Fl != nil && (!validUTF8(x.Fl.ConfigPath) || !validUTF8(x.Fl.Suggestion) || !validUTF8(x.Fl.DocsURL) || !validUTF8(x.Fl.FixValue) || !validUTF8(x.Fl.FixPath) || !validUTF8(x.Fl.FixOp))) {
			s.InvalidUTF8 = true
		}
	}, false)
	return s
}

// nonTrivial: depth >= 3 and (a Join, or a coded node below a fatal mark, or >= 2 coded nodes)
func (s shape) nonTrivial() bool {
	return s.Depth >= 3 && (s.Joins > 0 || s.CodedBelowFatal || s.Coded >= 2)
}
